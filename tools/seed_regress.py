#!/usr/bin/env python3
"""Regression of the checks against every stored seeded change: applies seeded/<id>/patch.diff to a scratch worktree of /repo and runs
the quick tier of the checks that are recorded as catching it (meta.json: verified.checks with exit 1; all listed ones if none).
Result: seeded/regress.json.  usage: seed_regress.py [id-substring ...]"""
import glob, json, os, subprocess, sys, time

want = sys.argv[1:]
out_path = "/verif/seeded/regress.json"
res = json.load(open(out_path)) if os.path.exists(out_path) else {}
for m in sorted(glob.glob("/verif/seeded/*/meta.json")):
    sid = os.path.basename(os.path.dirname(m))
    if want and not any(w in sid for w in want):
        continue
    meta = json.load(open(m))
    checks = meta.get("verified", {}).get("checks", {})
    run = [c for c, r in checks.items() if r["exit"] == 1] or list(checks) or [meta.get("property")]
    wt = "/tmp/sr_" + sid
    subprocess.run("git -C /repo worktree remove --force %s; git -C /repo worktree prune; git -C /repo worktree add --detach %s HEAD" % (wt, wt), shell=True, capture_output=True)
    try:
        p = subprocess.run("git apply --whitespace=nowarn /verif/seeded/%s/patch.diff" % sid, shell=True, cwd=wt, capture_output=True, text=True)
        if p.returncode != 0:
            res[sid] = dict(error="patch does not apply: " + p.stderr[-300:])
            print(sid, res[sid])
            continue
        r = {}
        for c in run:
            t = time.time()
            q = subprocess.run("./check %s --tier quick" % c, shell=True, cwd="/verif", env=dict(os.environ, VERIF_REPO=wt), stdout=subprocess.PIPE, stderr=subprocess.STDOUT, text=True)
            lines = [l[:300] for l in q.stdout.splitlines() if l.startswith(("VIOLATION", "INCONCLUSIVE", "violation:"))][:2]
            r[c] = dict(exit=q.returncode, wall_s=round(time.time() - t), lines=lines)
        res[sid] = dict(at=time.strftime("%Y-%m-%d %H:%M:%S"), checks=r, caught=any(x["exit"] == 1 for x in r.values()))
        print(sid, {c: x["exit"] for c, x in r.items()}, flush=True)
    finally:
        subprocess.run("git -C /repo worktree remove --force %s; git -C /repo worktree prune" % wt, shell=True, capture_output=True)
        subprocess.run("git -C /verif checkout -- evidence", shell=True, capture_output=True)
    json.dump(res, open(out_path, "w"), indent=1)
