#!/usr/bin/env python3
"""prints the markdown table 'which checks catch which seeded change' (DESIGN 11.6) from /verif/seeded/*/meta.json, the latest
regression (/verif/seeded/regress.json, tools/seed_regress.py) and /verif/seeded/gained.json"""
import json, glob, os
gained = json.load(open("/verif/seeded/gained.json")) if os.path.exists("/verif/seeded/gained.json") else {}
regress = json.load(open("/verif/seeded/regress.json")) if os.path.exists("/verif/seeded/regress.json") else {}
print("| seed | change (abridged) | caught by (quick tier) | missed at first by | what the machinery gained from it |")
print("|---|---|---|---|---|")
for m in sorted(glob.glob("/verif/seeded/*/meta.json")):
    d = json.load(open(m))
    sid = os.path.basename(os.path.dirname(m))
    checks = dict(d.get("verified", {}).get("checks", {}))
    first_missed = [c for c, r in d.get("first_verified", {}).get("checks", {}).items() if r["exit"] != 1]
    if sid in regress and "checks" in regress[sid]:
        checks.update(regress[sid]["checks"])
    caught = sorted(c for c, r in checks.items() if r["exit"] == 1)
    summ = (d.get("summary") or "")[:130].replace("|", "/").replace("\n", " ")
    print("| %s | %s | %s | %s | %s |" % (sid, summ, ", ".join(caught) or "-", ", ".join(first_missed) or "-", gained.get(sid, "-")))
