#!/usr/bin/env python3
"""prints the markdown table 'which checks catch which seeded change' from /verif/seeded/*/meta.json"""
import json, glob, os
rows = []
for m in sorted(glob.glob("/verif/seeded/*/meta.json")):
    d = json.load(open(m))
    v = d.get("verified", {})
    sid = os.path.basename(os.path.dirname(m))
    checks = v.get("checks", {})
    caught = [c for c, r in checks.items() if r["exit"] == 1]
    missed = [c for c, r in checks.items() if r["exit"] == 0]
    incon = [c for c, r in checks.items() if r["exit"] not in (0, 1)]
    how = ""
    for c in caught[:1]:
        ls = [l for l in checks[c]["lines"] if l.startswith("violation:")]
        how = ls[0][11:170] if ls else ""
    rows.append((sid, d.get("property", v.get("property")), (d.get("summary") or "")[:150].replace("|", "/").replace("\n", " "),
                 (d.get("needs") or "")[:150].replace("|", "/").replace("\n", " "),
                 "yes" if v.get("pinned_suite_passes") else "NO", "yes" if v.get("demo_fails_with_change") and v.get("demo_passes_without_change") else "?",
                 ", ".join(caught) or "-", ", ".join(missed) or "-", ", ".join(incon) or "-", how.replace("|", "/")))
print("| seed | property | change | needs | suite passes | demo ok | caught by | not caught by | inconclusive | first report |")
print("|---|---|---|---|---|---|---|---|---|---|")
for r in rows:
    print("| " + " | ".join(str(x) for x in r) + " |")
