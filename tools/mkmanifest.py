#!/usr/bin/env python3
"""Regenerates MANIFEST.json from the table below (single source of truth for the interface)."""
import json, os, subprocess
V = os.path.dirname(os.path.dirname(os.path.abspath(__file__)))
ALL = ["C%02d" % i for i in range(1, 21)]

CHECKS = {
 "C01": dict(engine="priority-engine", cat="model_checking", design="§5 C01, §4.2, §3.3 B2/B3",
   text="TLC checks capacity, round budget and conservation invariants of the PrioV2/PrioV1 specifications in bounded configurations built from the real divider table; transition-cover paths of the state graph are replayed into the real scheduler gated at the verif hooks (abstract state compared after every step) and continued adversarially (inputs full, nothing released); free-running randomized runs add unbuffered inputs and large configurations; the TLA+ monitor Mon_Prio decides received - release-issued <= H on every recorded trace.",
   note="Trusted: TLC, Go testing/synctest, the verif hooks. Exhaustive only in the small configurations listed in the evidence; larger ones by randomized runs.",
   technique="TLA+ spec + TLC invariants; gated replay of TLC transition cover into real code; TLC monitor on recorded traces"),
 "C02": dict(engine="priority-engine", cat="model_checking", design="§5 C02, §4.2",
   text="Order/exactly-once invariant of the specification checked by TLC; the same replayed paths are drained to termination and Mon_Prio decides, per input, consecutive ordinals, correct tag, nothing missing at close and nothing unwritten delivered; free-running runs with one dispatcher add large configurations and unbuffered inputs.",
   note="Trusted: TLC, synctest; per-priority order is observed at a single reader.",
   technique="TLA+ spec + TLC invariants; gated replay; TLC monitor on recorded traces"),
 "C05": dict(engine="priority-engine", cat="model_checking", design="§5 C05, §4.2",
   text="Saturated configurations of the specification (infinite supply): TLC enumerates every release order and grouping and checks the share invariants; every cover path is replayed with inputs topped up before each scheduler step and stalled; Mon_Prio decides per-priority in-flight <= share and exact shares at the stall point. v1: gated saturated recorder (inputs filled before New and topped up before every scheduler step, gated stall), traces validated against PrioV1, shares from the real v1 divider. Apalache: ShareInd.tla proves out[p] <= strategic[p] inductive for every HandlersQuantity and every strategic division (3 priorities; twins must fail).",
   note="Trusted: TLC, synctest; share = real divider(all priorities, H). Bounded configurations.",
   technique="TLA+ saturated spec + TLC; gated replay with stall continuation; TLC monitor; Apalache inductive invariant on the counter abstraction ShareInd"),
 "C06": dict(engine="priority-engine", cat="model_checking", design="§5 C06, §4.2",
   text="TLC liveness (every written item eventually received; termination) under weak/strong fairness with a vacuity twin; safety form NoIdleBlock; on the real code every cover path is continued into the alone-scenario (nothing in flight, one priority has data, nothing released => all H handlers) and drained under a virtual deadline; Mon_Prio decides.",
   note="Trusted: TLC liveness checking, synctest virtual time (eventually = within a virtual deadline with the step enabled).",
   technique="TLA+ liveness under fairness (TLC); gated replay with alone/drain continuations; TLC monitor"),
 "C07": dict(engine="priority-engine", cat="model_checking", design="§5 C07, §4.2",
   text="TLC checks that Closed implies drained, delivered and released (safety) and termination (liveness); replayed paths end in arbitrary states and are then closed, released and drained: Mon_Prio decides that Output()/Err() close only then, do close by the virtual deadline, and yield no non-nil error.",
   note="Trusted: TLC, synctest.",
   technique="TLA+ spec + TLC safety/liveness; gated replay with drain continuation; TLC monitor"),
 "C15": dict(engine="priority-engine", cat="fault_enumeration", design="§5 C15, §4.2",
   text="Fault model: TLC corrupts the result of any one divider call (over/under-allocation) at any reachable state of the bounded configurations and checks the fail-safe invariants; every such behaviour in the transition cover is replayed with the fault injected at that very call of the real code; divider arguments seen by a wrapping divider are decided by TLC (PureContract); the constructor clause by PureUtils on the real New.",
   note="Trusted: TLC, synctest. One fault per behaviour; bounded configurations.",
   technique="TLA+ fault-budget spec + TLC; gated replay with fault injection; TLC validation of recorded divider calls"),
 "C16": dict(engine="priority-engine", cat="fault_enumeration", design="§5 C16, §4.2, §6 F3/F5",
   text="Fault model: Stop()/cancel injected at any point. TLC checks (stop or cancel requested) ~> terminated on PrioV1 under scheduler fairness only, with a regression twin (the loop of the pinned tree must show the F3 lasso); on the real v1 priority, simplified priority and join disciplines seeded gated schedules inject Stop/cancel at random steps (handlers silent, consumer not reading, release never sent) and Mon_Prio / the join monitor decide that the call returns by the virtual deadline, nothing is written afterwards, no Handle runs, deliveries are an in-order duplicate-free subsequence; a second Stop()/GracefulStop() overlapping the first is judged like the first when it returns; termination from point zero (already cancelled context); a spinning scheduler is caught by a wall-clock watchdog with a goroutine dump. SimpleV1.tla (main, deferred chain, gracefulStop helper, handlers) is model-checked with regression twins and bound by trace validation with silent steps.",
   note="Trusted: TLC liveness, synctest virtual time, the watchdog's reading of the goroutine dump. Random schedules, not a transition cover, on the v1 code.",
   technique="TLA+ liveness without environment fairness (TLC) + regression twin; seeded gated schedules on real code judged by TLA+ monitors"),
 "C17": dict(engine="priority-engine", cat="model_checking", design="§5 C17, §4.2",
   text="TLC checks capacity, conservation, order and graceful-termination invariants of PrioV1 over all interleavings of add / replace / remove with traffic; on the real code seeded gated schedules issue AddInput/RemoveInput at random scheduler steps and Mon_Prio decides tags, no element taken from a removed or replaced channel after the call returned, capacity and exactly-once across the change, and that GracefulStop still returns.",
   note="Trusted: TLC, synctest; 'never reads again' is observed through len() of harness-owned channels and parked writers.",
   technique="TLA+ spec with dynamic inputs + TLC invariants; seeded gated schedules on real code judged by the TLA+ monitor"),
 "C19": dict(engine="cross-cutting", cat="model_checking", design="§5 C19",
   text="In the specifications every goroutine of a discipline is the scheduler process whose exit state is reached on every termination path (termination liveness checked by TLC: C07_Live, C16_Live); on the real code every recorded run of every engine (normal, graceful, stop, cancel, divider fault; priority v1/v2, simplified disciplines, free-running) ends with a goroutine dump after the termination signal: the monitor event Leak (goroutines with library frames remain) is the violation.",
   note="Trusted: runtime.Stack attribution by frame name, synctest quiescence (retry with back-off in free-running mode). Handler goroutines of the simplified disciplines are not modelled in TLA+, only observed.",
   technique="TLC termination liveness + goroutine dumps over all recorded runs judged by the TLA+ monitor"),
 "C20": dict(engine="cross-cutting", cat="exploration", design="§5 C20, §7",
   text="The TLA+ family cannot express the Go memory model; the specifications contribute the schedules and the ownership argument (C08). Decision: every harness binary is built with -race; free-running randomized runs with real goroutines (handlers receiving and releasing, producers, Stop/GracefulStop/AddInput/RemoveInput/cancel from other goroutines, concurrent Handle calls, consumers keeping and modifying copy-mode slices) plus the model-generated gated schedules; any race report involving the library is the violation.",
   note="Trusted base: the Go race detector (finds races only on executed schedules). Claimed at exploration level.",
   technique="Go race detector over model-generated and randomized schedules (exploration)"),
 "C13": dict(engine="pure-engine", cat="model_checking", design="§5 C13, §4.1",
   text="Apalache proves the postcondition for the specification's Recalculate over all 64-bit inputs (with a regression twin for the repaired branch and a vacuity twin); the Go function is bound to it by validating every recorded call - exhaustive small domain by TLC, seeded boundary-directed 64-bit calls by Apalache (incl. the band where the high word of Quantity*minimum equals Interval) - against the property's postcondition; a panic is recorded as an outcome the property does not allow.",
   note="Trusted: Apalache/Z3, TLC, the transcription RateConv.tla (itself checked for conformance on every recorded call).",
   technique="TLA+ spec of Recalculate; Apalache symbolic validity; TLC/Apalache validation of recorded real calls"),
 "C14": dict(engine="pure-engine", cat="model_checking", design="§5 C14, §4.1",
   text="TLC checks the divider theorems on the spec operators over an exhaustive small domain and then decides every recorded call of the four real dividers (same domain, nil/empty/prefilled distributions) against the property; large magnitudes by the same postcondition with big integers; lists whose priorities sum beyond the machine word on the conservation clauses.",
   note="Trusted: TLC; 32-bit TLC integers bound the TLC-decided domain; float ties handled by the tie-permissive outcome set.",
   technique="TLA+ Dividers spec; TLC validation of recorded calls of the real dividers (B4)"),
 "C18": dict(engine="pure-engine", cat="model_checking", design="§5 C18, §4.1",
   text="Every recorded call of the real helpers (both versions) is decided by TLC against the subset definition evaluated on rows produced by the real divider; PickUp* against min/max of the recorded predicate; non-fatal => accepted against the real v2 constructor.",
   note="Trusted: TLC; IsSuitableConfig's float expression is checked through the relations the property states, not transcribed.",
   technique="TLA+ definition of NonFatal/PickUp; TLC validation of recorded calls (B4)"),
}

def _join(prop_text, note="Trusted: TLC, Go testing/synctest virtual clock; bounded configurations (JoinSize 1..3, few elements) exhaustively, larger ones by seeded schedules."):
    return dict(engine="join-engine", cat="model_checking", design="§5, §4.3", text=prop_text, note=note,
                technique="explicit-time TLA+ spec + TLC; lock-step traces of the real code validated by TLC (Trace_Join/Trace_Unite) and judged by the TLA+ monitors Mon_Join / Mon_JoinShared / Mon_JoinHold; Apalache inductive invariants on the counter abstractions JoinInd / UniteInd")

CHECKS.update({
 "C03": _join("TLC checks the concatenation/size invariants (ghost viol set inside the send action) of the explicit-time Join/Unite specifications in the free, urgent and ready regimes; TLC-enumerated and seeded timed schedules are replayed lock-step into the real v2 join, v2 unite and v1 join (copy and no-copy) in synctest bubbles; every recorded trace is validated against the trace specification (conformance) and judged by Mon_Join: concatenation of received slices = written sequence, no empty slice, size rules."),
 "C08": _join("Memory-ownership model (mem identities, owner) in Join/Unite checked by TLC; a retaining, scribbling consumer keeps every delivered slice, re-reads it after each later step and overwrites copy-mode slices; v1 Stop/cancel injected between delivery and release; Mon_Join decides: retained contents unchanged, copy-mode outputs never alias, no output between a no-copy delivery and its release."),
 "C09": _join("TLC checks 'short => timeout or final' inside the send action and the greedy reference batching in untimed configurations; the real code is driven with exact virtual timestamps; Mon_Join decides greedy batching (untimed) and delivered-no-earlier-than-Timeout-after-the-previous-delivery for short non-final slices; real clock: no-copy runs with a consumer holding slices about a Timeout under both timer-channel semantics (GODEBUG=asynctimerchan=1 is refused by synctest), judged by Mon_JoinHold; Apalache: JoinInd.tla (timing clause, every Timeout/period/JoinSize) and UniteInd.tla (unite size and maximality clauses, every JoinSize and slice-length sequence) as inductive invariants with twins that must fail; all unite length sequences over {0,1,J-1,J,J+1} up to the bound."),
 "C10": _join("TLC checks the age bound T + T div Div of the oldest buffered element in the urgent-with-ready-consumer regime; lock-step traces with a ready consumer (virtual clock, zero scheduling latency) for several inaccuracies and timeouts; Mon_Join decides deliveredAt - acceptedAt <= Timeout*(1+1/floor(100/inaccuracy)); Apalache: the age bound as an inductive invariant of JoinInd.tla for every Timeout, ticker period, JoinSize and arrival pattern (twins must fail); several disciplines fed from ONE input channel judged by Mon_JoinShared; directed schedules at the acceptance boundary of the constructors and with writes landing exactly at tick instants."),
 "C11": _join("Unite specification with slice-valued input: TLC checks that every non-empty input slice lies wholly in one output slice, empty ones leave no trace, oversize slices are outputs of their own after the flush; Apalache: UniteInd.tla proves the size clauses for every JoinSize and every sequence of slice lengths (twins must fail); all sequences of slice lengths over {0,1,J-1,J,J+1} replayed into the real unite; Mon_Join decides on the recorded boundaries."),
})

def _limit(prop_text):
    return dict(engine="limit-engine", cat="model_checking", design="§5, §4.4", text=prop_text,
                note="Trusted: TLC, synctest virtual clock (time.Sleep never returns early on a real clock, so exact virtual sleeps are the worst case for C04).",
                technique="explicit-time TLA+ spec + TLC (incl. edge cover of the state graph as schedules); lock-step traces validated by TLC (Trace_Limit) and judged by the TLA+ monitors Mon_Limit / Mon_LimitShared; Apalache inductive invariant on the counter abstraction LimitInd (C04)")

CHECKS.update({
 "C04": _limit("TLC checks the structural invariants (batch starts >= Interval apart, <= Quantity per batch) and, in a tiny configuration with the full emission history, the cumulative and pairwise window formulas; several disciplines fed from ONE input channel judged by Mon_LimitShared (each its own bound); Apalache: LimitInd.tla proves the cumulative bound and the spacing of batch starts inductive for every Quantity, Interval and instant (twins mirroring seeded changes must fail); an edge cover of the state graph plus seeded profiles (prefilled, trickle, stall-then-burst, slow consumer, 40+ intervals) are replayed lock-step into the real limit discipline; Mon_Limit applies the cumulative and the all-pairs window formula to the exact virtual emission instants."),
 "C12": _limit("TLC checks order/losslessness, closed => everything forwarded, inClosed ~> outClosed under fairness (with vacuity twins) and the exact schedule with everything available up-front; Mon_Limit decides on recorded traces: received = written prefix, closes only after the input closed and everything was forwarded, closes by the virtual deadline, element j at exactly (j div Q)*I with a ready consumer, fewer than Quantity elements without any pause, and for every arrival pattern element j > Q leaves no later than max(written, element j-1 left, element j-Q left + Interval)."),
})

REASON_PENDING = "check under construction in this session (engine not registered yet); see DESIGN.md §5"

def main():
    checks = []
    for pid in ALL:
        c = CHECKS.get(pid)
        if not c:
            continue
        checks.append(dict(property_id=pid, quick_cmd="./check %s --tier quick" % pid, thorough_cmd="./check %s --tier thorough" % pid,
                           evidence_file="/verif/evidence/%s.json" % pid, replay_cmd_template="./check %s --replay {path}" % pid,
                           engine=c["engine"], level_claimed=dict(category=c["cat"], text=c["text"], design_ref=c["design"]),
                           level_note=c["note"], technique=c["technique"]))
    hooks = json.load(open(os.path.join(V, "tools", "hooks.json"))) if os.path.exists(os.path.join(V, "tools", "hooks.json")) else []
    m = dict(version=1,
             setup_cmd="cd /verif && ./tools/setup.sh",
             hooks=dict(guard="verif", enable="go1.26.8 test -tags verif (harness module /verif/harness, replace => /repo and /repo/v2)",
                        baseline_off_cmd="python3 /verif/tools/baseline.py /repo", source_commits=hooks, add_only=True),
             engines=[dict(name="pure-engine", path="/verif/lib/pure.py", serves_properties=["C13", "C14", "C18"],
                           kind_free_text="TLA+ specs of the pure functions; TLC/Apalache decide recorded calls of the real functions"),
                      dict(name="join-engine", path="/verif/lib/join.py", serves_properties=["C03", "C08", "C09", "C10", "C11", "C16"],
                           kind_free_text="explicit-time Join/Unite TLA+ specs (v2 join, v2 unite, v1 join); TLC; lock-step synctest traces; Trace_* conformance + Mon_Join verdicts"),
                      dict(name="limit-engine", path="/verif/lib/limit.py", serves_properties=["C04", "C12"],
                           kind_free_text="explicit-time Limit TLA+ spec; TLC; lock-step synctest traces; Trace_Limit conformance + Mon_Limit verdicts"),
                      dict(name="cross-cutting", path="/verif/lib/cross.py", serves_properties=["C19", "C20"],
                           kind_free_text="goroutine dumps after termination and the Go race detector over the runs of all engines"),
                      dict(name="priority-engine", path="/verif/lib/prio.py", serves_properties=["C01", "C02", "C05", "C06", "C07", "C15", "C16", "C17"],
                           kind_free_text="PrioV2/PrioV1 TLA+ specs; TLC model checking; gated replay of transition covers into the real scheduler; TLA+ monitors on recorded traces")],
             checks=checks,
             notes="Exit codes: 0 held, 1 VIOLATION (real-code behaviour contradicts the property), 2 inconclusive (tool/build failure; never a verdict).",
             not_applicable=[dict(property_id=p, reason=REASON_PENDING) for p in ALL if p not in CHECKS])
    json.dump(m, open(os.path.join(V, "MANIFEST.json"), "w"), indent=1)
    print("manifest: %d checks, %d not applicable" % (len(checks), len(m["not_applicable"])))

if __name__ == "__main__":
    main()
