#!/usr/bin/env python3
"""Regenerates MANIFEST.json from the table below (single source of truth for the interface)."""
import json, os, subprocess
V = os.path.dirname(os.path.dirname(os.path.abspath(__file__)))
ALL = ["C%02d" % i for i in range(1, 21)]

CHECKS = {
 "C13": dict(engine="pure-engine", cat="model_checking", design="§5 C13, §4.1",
   text="Apalache proves the postcondition for the specification's Recalculate over all 64-bit inputs (with a regression twin for the repaired branch and a vacuity twin); the Go function is bound to it by validating every recorded call - exhaustive small domain by TLC, seeded boundary-directed 64-bit calls by Apalache - against the property's postcondition.",
   note="Trusted: Apalache/Z3, TLC, the transcription RateConv.tla (itself checked for conformance on every recorded call).",
   technique="TLA+ spec of Recalculate; Apalache symbolic validity; TLC/Apalache validation of recorded real calls"),
 "C14": dict(engine="pure-engine", cat="model_checking", design="§5 C14, §4.1",
   text="TLC checks the divider theorems on the spec operators over an exhaustive small domain and then decides every recorded call of the four real dividers (same domain, nil/empty/prefilled distributions) against the property; large magnitudes by the same postcondition with big integers.",
   note="Trusted: TLC; 32-bit TLC integers bound the TLC-decided domain; float ties handled by the tie-permissive outcome set.",
   technique="TLA+ Dividers spec; TLC validation of recorded calls of the real dividers (B4)"),
 "C18": dict(engine="pure-engine", cat="model_checking", design="§5 C18, §4.1",
   text="Every recorded call of the real helpers (both versions) is decided by TLC against the subset definition evaluated on rows produced by the real divider; PickUp* against min/max of the recorded predicate; non-fatal => accepted against the real v2 constructor.",
   note="Trusted: TLC; IsSuitableConfig's float expression is checked through the relations the property states, not transcribed.",
   technique="TLA+ definition of NonFatal/PickUp; TLC validation of recorded calls (B4)"),
}
REASON_PENDING = "check under construction in this session (engine not registered yet); see DESIGN.md §5"

def main():
    checks = []
    for pid in ALL:
        c = CHECKS.get(pid)
        if not c:
            continue
        checks.append(dict(property_id=pid, quick_cmd="./check %s --tier quick" % pid, thorough_cmd="./check %s --tier thorough" % pid,
                           evidence_file="/verif/evidence/%s.json" % pid, replay_cmd_template="./check %s --replay {path}" % pid,
                           engine=c["engine"], level_claimed=dict(category=c["cat"], text=c["text"], design_ref=c["design"]),
                           level_note=c["note"], technique=c["technique"]))
    hooks = json.load(open(os.path.join(V, "tools", "hooks.json"))) if os.path.exists(os.path.join(V, "tools", "hooks.json")) else []
    m = dict(version=1,
             setup_cmd="cd /verif && ./tools/setup.sh",
             hooks=dict(guard="verif", enable="go1.26.8 test -tags verif (harness module /verif/harness, replace => /repo and /repo/v2)",
                        baseline_off_cmd="python3 /verif/tools/baseline.py /repo", source_commits=hooks, add_only=True),
             engines=[dict(name="pure-engine", path="/verif/lib/pure.py", serves_properties=["C13", "C14", "C18"],
                           kind_free_text="TLA+ specs of the pure functions; TLC/Apalache decide recorded calls of the real functions")],
             checks=checks,
             notes="Exit codes: 0 held, 1 VIOLATION (real-code behaviour contradicts the property), 2 inconclusive (tool/build failure; never a verdict).",
             not_applicable=[dict(property_id=p, reason=REASON_PENDING) for p in ALL if p not in CHECKS])
    json.dump(m, open(os.path.join(V, "MANIFEST.json"), "w"), indent=1)
    print("manifest: %d checks, %d not applicable" % (len(checks), len(m["not_applicable"])))

if __name__ == "__main__":
    main()
