#!/usr/bin/env python3
"""Self-test of the checks against a catalogue of hand-written mutants (DESIGN section 10): each entry is applied to a scratch
worktree of /repo (textual replacement), must compile with and without the verif tag, and the listed checks are run against it
with VERIF_REPO.  Results go to /verif/seeded/catalogue.json.  usage: catalogue.py [name-substring ...]"""
import json, os, subprocess, sys, time

V1 = "priority/priority.go"
V2 = "v2/priority/priority.go"
CAT = [
 # name, file, old, new, checks, expect ("caught" or "silent": property-preserving variant)
 ("c01_recalc_divides_H", V2, "		dsc.useful,\n		remainder,\n		dsc.tactic,", "		dsc.useful,\n		dsc.opts.HandlersQuantity+0*remainder,\n		dsc.tactic,", ["C01"], "caught"),
 ("c01_send_no_decrease_tactic", V2, "	dsc.decreaseTactic(priority)\n	dsc.increaseActual(priority)\n	dsc.verifAt(\"Send\"", "	dsc.increaseActual(priority)\n	dsc.verifAt(\"Send\"", ["C01"], "caught"),
 ("c01_safedivide_ge", "v2/priority/assist.go", "	if after-before != dividend {", "	if after-before < dividend {", ["C15"], "caught"),
 ("c01_double_decrease_limfb", V2, "		case priority := <-dsc.feedback:\n			dsc.decreaseActual(priority)\n			dsc.verifAt(\"FbLim\"", "		case priority := <-dsc.feedback:\n			dsc.decreaseActual(priority)\n			if dsc.actual[priority] > 0 {\n				dsc.decreaseActual(priority)\n			}\n			dsc.verifAt(\"FbLim\"", ["C01"], "caught"),
 ("c01_v1_clearactual_nonzero", V1, "		if quantity == 0 && !dsc.isInputExists(priority) {", "		if !dsc.isInputExists(priority) && quantity < 2 {", ["C01", "C17"], "caught"),
 ("c02_v1_send_stop_counts", V1, "		dsc.verifAt(\"SendStop\", priority, false)\n		return 0", "		dsc.verifAt(\"SendStop\", priority, false)\n		return 1", ["C16"], "silent"),
 ("c05_unsorted_priorities", V2, "	common.SortPriorities(priorities)\n\n	err := safeDivide(", "	err := safeDivide(", ["C05", "C15"], "caught"),
 ("c07_isdrained_any", V2, "	for _, input := range dsc.inputs {\n		if !input.Drained {\n			return false\n		}\n	}\n\n	return true", "	for _, input := range dsc.inputs {\n		if input.Drained {\n			return true\n		}\n	}\n\n	return false", ["C07", "C02"], "caught"),
 ("c07_no_wait_zero_actual", V2, "	defer dsc.waitZeroActual()\n", "", ["C07"], "caught"),
 ("c15_safedivide_always_nil", "v2/priority/assist.go", "	if after-before != dividend {\n		return ErrDividerBad\n	}", "	if after-before != dividend {\n		return nil\n	}", ["C15"], "caught"),
 ("c15_uncrowded_twice", V2, "		if dsc.actual[priority] < dsc.strategic[priority] {\n			dsc.uncrowded = append(dsc.uncrowded, priority)", "		if dsc.actual[priority] < dsc.strategic[priority] {\n			dsc.uncrowded = append(dsc.uncrowded, priority)\n			if dsc.actual[priority]+1 < dsc.strategic[priority] {\n				dsc.uncrowded = append(dsc.uncrowded, priority)\n			}", ["C15"], "caught"),
 ("c15_prepare_skips_filled", V2, "	if !common.IsDistributionFilled(strategic) {\n		return nil, nil, nil, ErrHandlersQuantityTooSmall\n	}\n", "", ["C15"], "caught"),
 ("c17_remove_keeps_priority", V1, "	dsc.priorities = removePriority(dsc.priorities, priority)\n", "", ["C17"], "silent"),   # judged property-preserving for C17: the removed priority keeps a strategic share, nothing C17 states is affected
 ("c18_combinations_skip_singletons", "v2/priority/utils/utils.go", "		combinations = append(combinations, addToCombination(nil, priority))", "		if len(combinations) == 0 {\n			combinations = append(combinations, addToCombination(nil, priority))\n		}", ["C18"], "caught"),
 ("c18_pickupmax_upward", "v2/priority/utils/utils.go", "	for quantity := maxQuantity; quantity != 0; quantity-- {\n		if isNonFatalConfig(combinations, divider, quantity) {", "	for quantity := uint(1); quantity <= maxQuantity; quantity++ {\n		if isNonFatalConfig(combinations, divider, quantity) {", ["C18"], "caught"),
 ("c14_fair_extras_last", "v2/priority/divider/divider.go", "		if remainder == 0 {\n			continue\n		}\n\n		distribution[priority]++\n		remainder--", "		if uint(len(priorities))-remainder > uint(0) && remainder < divider {\n			divider--\n			continue\n		}\n\n		distribution[priority]++", ["C14"], "caught"),
 ("c14_rate_floor", "v2/priority/divider/divider.go", "		part := uint(math.Round(base * float64(priority)))", "		part := uint(math.Floor(base * float64(priority)))", ["C14"], "caught"),
 ("c13_quotient_round_up", "v2/limit/rate.go", "	quotient := new(big.Int).Quo(product, ib)", "	quotient := new(big.Int).Quo(new(big.Int).Add(product, new(big.Int).Sub(ib, big.NewInt(1))), ib)", ["C13"], "caught"),
 ("c13_no_uint64_check", "v2/limit/rate.go", "	if !quotient.IsUint64() {\n		return 0, ErrConvertedQuantityUnrepresentable\n	}\n", "", ["C13"], "caught"),
 ("x_feedback_limit_divider_5", V2, "	defaultFeedbackLimitDivider = 10", "	defaultFeedbackLimitDivider = 5", ["C01", "C07"], "silent"),
 ("x_idle_delay_1us", V2, "	defaultIdleDelay            = 1 * time.Nanosecond", "	defaultIdleDelay            = 1 * time.Microsecond", ["C01", "C06"], "silent"),
 ("x_interrupt_timeout_1us", V2, "	defaultInterruptTimeout     = 1 * time.Nanosecond", "	defaultInterruptTimeout     = 1 * time.Microsecond", ["C06", "C02"], "silent"),
 ("x_capacity_divider_5", "v2/priority/internal/common/consts.go", "	DefaultCapacityDivider = 10", "	DefaultCapacityDivider = 1", ["C01", "C07"], "silent"),
 ("x_close_order_swapped", V2, "	defer close(dsc.output)\n	defer close(dsc.feedback)", "	defer close(dsc.feedback)\n	defer close(dsc.output)", ["C07", "C19"], "silent"),
 ("x_error_wrapped", "v2/priority/assist.go", "	if after-before != dividend {\n		return ErrDividerBad\n	}", "	if after-before != dividend {\n		return errors.Join(ErrDividerBad, errors.New(\"added total differs from the dividend\"))\n	}", ["C15"], "silent"),
 ("x_join_output_cap_1", "v2/join/join.go", "		output:  make(chan []Type, 1+cap(opts.Input)),", "		output:  make(chan []Type, 1),", ["C03", "C09", "C10"], "silent"),
 ("x_join_fresh_buffer_copy_mode", "v2/join/join.go", "func (dsc *Discipline[Type]) resetJoin() {\n	dsc.join = dsc.join[:0]", "func (dsc *Discipline[Type]) resetJoin() {\n	if !dsc.opts.NoCopy {\n		dsc.join = make([]Type, 0, dsc.opts.JoinSize)\n		return\n	}\n	dsc.join = dsc.join[:0]", ["C03", "C08"], "silent"),
 ("x_join_clone_by_append", "v2/join/join.go", "	return slices.Clone(item)", "	return append(slices.Grow([]Type(nil), 2*len(item)), item...)", ["C03", "C08", "C20"], "silent"),
 ("x_join_timeouted_strict", "v2/join/join.go", "	return time.Since(dsc.passAt) >= dsc.opts.Timeout", "	return time.Since(dsc.passAt) > dsc.opts.Timeout", ["C09", "C10"], "silent"),
 ("x_limit_delay_guard", "v2/limit/limit.go", "	time.Sleep(remainder)", "	if remainder > 0 {\n		time.Sleep(remainder)\n	}", ["C04", "C12"], "silent"),
 ("x_limit_timer_instead_of_sleep", "v2/limit/limit.go", "	time.Sleep(remainder)", "	if remainder <= 0 {\n		return\n	}\n	timer := time.NewTimer(remainder)\n	defer timer.Stop()\n	<-timer.C", ["C04", "C12", "C19"], "silent"),
 ("x_polling_order_low_to_high", V2, "	for _, priority := range dsc.priorities {\n		if dsc.inputs[priority].Drained {\n			continue\n		}\n\n		if cap(dsc.inputs[priority].Channel) != 0 {", "	for i := len(dsc.priorities) - 1; i >= 0; i-- {\n		priority := dsc.priorities[i]\n		if dsc.inputs[priority].Drained {\n			continue\n		}\n\n		if cap(dsc.inputs[priority].Channel) != 0 {", ["C02", "C01"], "silent"),
]


def sh(cmd, cwd=None, env=None, timeout=3600):
    p = subprocess.run(cmd, shell=True, cwd=cwd, env=env, stdout=subprocess.PIPE, stderr=subprocess.STDOUT, text=True, timeout=timeout)
    return p.returncode, p.stdout


def main():
    want = sys.argv[1:]
    out_path = "/verif/seeded/catalogue.json"
    res = json.load(open(out_path)) if os.path.exists(out_path) else {}
    env = dict(os.environ, GOFLAGS="-mod=mod", GOPROXY="off", GOSUMDB="off")
    for name, f, old, new, checks, expect in CAT:
        if want and not any(w in name for w in want):
            continue
        wt = "/tmp/cat_" + name
        sh("git -C /repo worktree remove --force %s; git -C /repo worktree prune" % wt)
        sh("git -C /repo worktree add --detach %s HEAD" % wt)
        try:
            p = os.path.join(wt, f)
            s = open(p).read()
            if s.count(old) != 1:
                res[name] = dict(error="pattern occurs %d times" % s.count(old))
                print(name, res[name])
                continue
            open(p, "w").write(s.replace(old, new))
            mod = wt + ("/v2" if f.startswith("v2/") else "")
            rc, o = sh("go build ./... && go build -tags verif ./... && go vet ./... 2>&1 | grep -v '^#' | head -3", cwd=mod, env=env)
            if rc != 0:
                res[name] = dict(error="does not compile", out=o[-500:])
                print(name, "does not compile", o[-300:])
                continue
            r = dict(file=f, expect=expect, checks={})
            for c in checks:
                t = time.time()
                rc, o = sh("./check %s --tier quick" % c, cwd="/verif", env=dict(os.environ, VERIF_REPO=wt))
                lines = [l[:300] for l in o.splitlines() if l.startswith(("VIOLATION", "KNOWN", "INCONCLUSIVE", "violation:"))][:3]
                r["checks"][c] = dict(exit=rc, wall_s=round(time.time() - t), lines=lines)
            caught = [c for c, x in r["checks"].items() if x["exit"] == 1]
            r["verdict"] = "caught by " + ",".join(caught) if caught else ("silent" if all(x["exit"] == 0 for x in r["checks"].values()) else "inconclusive")
            r["as_expected"] = (expect == "caught") == bool(caught)
            res[name] = r
            print(name, r["verdict"], "(expected %s)" % expect)
            sh("git -C /verif checkout -- evidence", cwd="/verif")
        finally:
            sh("git -C /repo worktree remove --force %s; git -C /repo worktree prune" % wt)
        os.makedirs("/verif/seeded", exist_ok=True)
        json.dump(res, open(out_path, "w"), indent=1)


if __name__ == "__main__":
    main()
