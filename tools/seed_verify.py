#!/usr/bin/env python3
"""seed_verify.py <seed-id> <property> <mutant-worktree>   e.g.  seed_verify.py C13-a C13 /tmp/mut/C13
Confirms a seeded change produced by an independent agent in a FRESH scratch worktree of /repo:
 compiles (with and without the verif tag), pinned suite passes, demonstration fails with the change and passes without,
then runs ./check <property> against it and stores everything under /verif/seeded/<seed-id>/ (patch.diff, demo, meta.json)."""
import json, os, shutil, subprocess, sys, time

sid, prop, mut = sys.argv[1], sys.argv[2], sys.argv[3].rstrip("/")
checks = sys.argv[4].split(",") if len(sys.argv) > 4 else [prop]
deliv = os.path.join(mut, os.environ.get("DELIV", "_deliverable"))
wt = "/tmp/sv_" + sid
env = dict(os.environ, GOFLAGS="-mod=mod", GOPROXY="off", GOSUMDB="off")


def sh(cmd, cwd=None, timeout=3000, e=None):
    p = subprocess.run(cmd, shell=True, cwd=cwd, env=e or env, stdout=subprocess.PIPE, stderr=subprocess.STDOUT, text=True, timeout=timeout)
    return p.returncode, p.stdout


res = dict(seed=sid, property=prop, source=mut, at=time.strftime("%Y-%m-%d %H:%M:%S"))
sh("git -C /repo worktree remove --force %s; git -C /repo worktree prune" % wt)
rc, out = sh("git -C /repo worktree add --detach %s HEAD" % wt)
assert rc == 0, out
try:
    patch = os.path.join(deliv, "patch.diff")
    rc, out = sh("git apply --whitespace=nowarn %s" % patch, cwd=wt)
    res["applies"] = rc == 0
    assert rc == 0, out
    rc1, o1 = sh("go build ./... && go build -tags verif ./...", cwd=wt)
    rc2, o2 = sh("go build ./... && go build -tags verif ./...", cwd=wt + "/v2")
    res["compiles"] = rc1 == 0 and rc2 == 0
    assert res["compiles"], o1 + o2
    rc, out = sh("python3 /verif/tools/baseline.py %s" % wt)
    res["pinned_suite"] = out.strip().splitlines()[0] if out.strip() else ""
    res["pinned_suite_passes"] = rc == 0
    if rc != 0:  # timing-sensitive tests fail on a loaded machine: rerun the failing packages alone, serially
        pk = sorted({l.split("NOT PASSING:")[1].split("::")[0].strip() for l in out.splitlines() if "NOT PASSING:" in l})
        ok = True
        for pkg in pk:
            d = wt + ("/v2" if "/cqos/v2" in pkg else "")
            rel = "./" + pkg.split("/cqos/v2/" if "/cqos/v2" in pkg else "/cqos/")[1]
            r2, o2 = sh("go test -vet=off -count=1 -p 1 -timeout 25m %s" % rel, cwd=d)
            ok = ok and r2 == 0
            res.setdefault("pinned_suite_rerun", {})[pkg] = "ok" if r2 == 0 else o2[-400:]
        res["pinned_suite_passes"] = ok
    # demonstration: copy the files the agent added (untracked in its worktree, outside _deliverable) to the same relative paths
    rc, out = sh("git status --porcelain --untracked-files=all", cwd=mut)
    demo_files = [l[3:] for l in out.splitlines() if l.startswith("??") and not l[3:].startswith("_deliverable")]
    if os.environ.get("DEMO_FILES") is not None:
        demo_files = [f for f in os.environ["DEMO_FILES"].split(",") if f]
    for f in demo_files:
        os.makedirs(os.path.dirname(os.path.join(wt, f)) or wt, exist_ok=True)
        shutil.copy(os.path.join(mut, f), os.path.join(wt, f))
    shutil.copytree(deliv, os.path.join(wt, os.path.basename(deliv)))
    meta = json.load(open(os.path.join(deliv, "meta.json")))
    cmd = meta.get("demo_cmd", "").replace(mut, wt)
    res["demo_cmd"] = cmd
    res["demo_files"] = demo_files
    if cmd:
        rc_with, o_with = sh(cmd, cwd=wt, timeout=900)
        sh("git apply -R --whitespace=nowarn %s" % patch, cwd=wt)
        rc_without, o_without = sh(cmd, cwd=wt, timeout=900)
        sh("git apply --whitespace=nowarn %s" % patch, cwd=wt)
        failed = lambda rc, o: rc != 0 or "--- FAIL" in o or "\nFAIL" in o or "panic:" in o or "DATA RACE" in o
        res["demo_fails_with_change"] = failed(rc_with, o_with)
        res["demo_passes_without_change"] = not failed(rc_without, o_without)
        res["demo_tail_with_change"] = o_with[-600:]
    # remove the demonstration again so that the checks see only the library change
    for f in demo_files:
        if os.path.exists(os.path.join(wt, f)):
            os.remove(os.path.join(wt, f))
    shutil.rmtree(os.path.join(wt, os.path.basename(deliv)), ignore_errors=True)
    sh("git status --porcelain --untracked-files=all | grep '^??' | cut -c4- | xargs -r rm -f", cwd=wt)
    res["checks"] = {}
    for c in checks:
        t = time.time()
        rc, out = sh("./check %s --tier quick" % c, cwd="/verif", e=dict(os.environ, VERIF_REPO=wt, VERIF_EVIDENCE_DIR="/tmp/sv_ev_" + sid), timeout=3000)
        lines = [l for l in out.splitlines() if l.startswith(("VIOLATION", "KNOWN-FINDING", "INCONCLUSIVE")) or l.startswith("violation:")]
        res["checks"][c] = dict(exit=rc, wall_s=round(time.time() - t), lines=[l[:400] for l in lines[:6]])
        print(c, "exit", rc, lines[:2])
    shutil.rmtree("/tmp/sv_ev_" + sid, ignore_errors=True)
    dst = "/verif/seeded/" + sid
    os.makedirs(dst, exist_ok=True)
    shutil.copy(patch, dst)
    for f in os.listdir(deliv):
        if f in ("patch.diff", "meta.json"):
            continue
        src = os.path.join(deliv, f)
        if os.path.isdir(src):
            shutil.copytree(src, os.path.join(dst, f), dirs_exist_ok=True)
        else:
            shutil.copy(src, dst)
    prev = {}
    if os.path.exists(os.path.join(dst, "meta.json")):  # keep the outcome of the FIRST confrontation (before any strengthening)
        try:
            old = json.load(open(os.path.join(dst, "meta.json")))
            prev = old.get("first_verified") or old.get("verified") or {}
        except ValueError:
            prev = {}
    meta["verified"] = res
    if prev:
        meta["first_verified"] = prev
    json.dump(meta, open(os.path.join(dst, "meta.json"), "w"), indent=1)
    print(json.dumps({k: v for k, v in res.items() if k not in ("demo_tail_with_change",)}, indent=1))
finally:
    sh("git -C /repo worktree remove --force %s; git -C /repo worktree prune" % wt)
