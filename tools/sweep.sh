#!/bin/bash
# usage: tools/sweep.sh "<seeds>" [tier] [checks...]  - runs the checks on the unchanged tree for several seeds; any exit != 0 is printed
seeds=${1:-"1 2 3"}; tier=${2:-quick}; shift 2 2>/dev/null
checks=${@:-C01 C02 C03 C04 C05 C06 C07 C08 C09 C10 C11 C12 C13 C14 C15 C16 C17 C18 C19 C20}
cd "$(dirname "$0")/.."
for s in $seeds; do
  for c in $checks; do
    t0=$(date +%s)
    out=$(VERIF_SEED=$s ./check $c --tier $tier 2>&1); rc=$?
    echo "seed=$s $c rc=$rc $(( $(date +%s) - t0 ))s $(echo "$out" | grep -E '^(VIOLATION|INCONCLUSIVE|KNOWN-FINDING)' | head -3 | cut -c1-160 | tr '\n' ';')"
  done
done
