#!/usr/bin/env python3
"""Runs the repository's pinned suite with the verif tag OFF and compares with /root/.vp/BASELINE.json.
usage: baseline.py [repo_root]   exit 0 iff every stable_pass test passed."""
import json, os, subprocess, sys
root = sys.argv[1] if len(sys.argv) > 1 else "/repo"
base = json.load(open("/root/.vp/BASELINE.json"))
want = set(base["stable_pass"])
status = {}
env = dict(os.environ, GOFLAGS="-mod=mod", GOPROXY="off", GOSUMDB="off")
for m in (".", "v2"):
    p = subprocess.run(["go", "test", "-mod=mod", "-json", "-vet=off", "-count=1", "-timeout", "25m", "./..."],
                       cwd=os.path.join(root, m), env=env, stdout=subprocess.PIPE, stderr=subprocess.STDOUT, text=True)
    for line in p.stdout.splitlines():
        try:
            e = json.loads(line)
        except ValueError:
            continue
        if e.get("Test") and e.get("Action") in ("pass", "fail", "skip"):
            status["%s::%s" % (e["Package"], e["Test"])] = e["Action"]
missing = sorted(t for t in want if status.get(t) != "pass")
print("baseline: %d/%d stable tests pass; %d not passing" % (len(want) - len(missing), len(want), len(missing)))
for t in missing[:40]:
    print("  NOT PASSING:", t, status.get(t))
sys.exit(1 if missing else 0)
