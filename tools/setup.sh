#!/bin/sh
# offline setup: warm the Go build cache for the harness packages (plain and -race, with the verif tag);
# everything else is interpreted (python3) or run by TLC / Apalache from the files in /verif/spec
set -e
cd /verif/harness
export GOFLAGS=-mod=mod GOPROXY=off GOSUMDB=off GOTOOLCHAIN=local
cat /repo/go.sum /repo/v2/go.sum | sort -u > go.sum
go1.26.8 test -vet=off -tags verif -count=1 -run '^$' ./... >/dev/null 2>&1 || true
go1.26.8 test -race -vet=off -tags verif -count=1 -run '^$' ./... >/dev/null 2>&1 || true
echo setup done
