SPECIFICATION Spec
CONSTANTS
 Configs <- CfgsHist
 MaxItems = 4  Horizon = 6
 Urgent = FALSE  LockStep = FALSE  ReadyCons = FALSE  EagerProd = FALSE  KeepHist = TRUE
INVARIANTS TypeOK NoViol C04_Struct C04_Cum C12_Order C12_Closed C04_CumHist C04_Pairwise
CHECK_DEADLOCK FALSE
