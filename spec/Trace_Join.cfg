SPECIFICATION TSpec
CONSTANTS Configs = {}  MaxItems = 1000000  Horizon = 1000000  Regime = "urgent"
CONSTRAINT Mark
POSTCONDITION Report
CHECK_DEADLOCK FALSE
