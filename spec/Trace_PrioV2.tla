---------------------------- MODULE Trace_PrioV2 ----------------------------
(* Trace validation (code -> spec) for the v2 priority discipline: gated random schedules of the REAL code
   (harness/prioh TestRecordV2) - every scheduler step is one hook event with a snapshot of the private counters,
   interleaved with the environment's own actions - must be explained record by record by the actions of PrioV2.
   Same scheme as Trace_PrioV1: one initial state per trace, `stuck` at the first unexplainable record (DRIFT, not a
   violation), the invariants of PrioV2 evaluated in every state; records after `Free` are not validated. *)
EXTENDS PrioV2, Json

Log == ndJsonDeserialize("trace.ndjson")
Starts == {j \in 1..Len(Log) : Log[j].e = "Reset"}

VARIABLES l, t0, stuck
tvars == <<vars, l, t0, stuck>>

PairsToFn(pairs) == [p \in Prios |-> IF \E i \in 1..Len(pairs) : pairs[i][1] = p
                                    THEN pairs[CHOOSE i \in 1..Len(pairs) : pairs[i][1] = p][2] ELSE 0]
Snap(e) == /\ actual' = PairsToFn(e.actual)
           /\ \A p \in Prios : (\E i \in 1..Len(e.tactic) : e.tactic[i][1] = p) => tactic'[p] = PairsToFn(e.tactic)[p]

TInit == Init /\ t0 \in Starts /\ l = t0 /\ stuck = FALSE

SchedStep(e) ==
  CASE e.ev = "Start" -> Start
    [] e.ev = "Calc" -> Calc /\ ~bad' /\ (e.flag <=> pc' = "Poll")
    [] e.ev = "Bad" -> (Calc \/ Recalc) /\ bad'
    [] e.ev = "FbOne" -> FbOne
    [] e.ev = "SendStart" -> Take /\ carry'[1] = e.p
    [] e.ev = "Send" -> Send /\ carry[1] = e.p
    [] e.ev = "PollEmpty" -> PollEmpty /\ PrioSeq[NextPollable] = e.p
    [] e.ev = "PollTick" -> PollTick /\ PrioSeq[NextPollable] = e.p /\ (e.flag <=> intr)
    [] e.ev = "Drained" -> Drain /\ PrioSeq[NextPollable] = e.p
    [] e.ev = "Recalc" -> Recalc /\ ~bad' /\ (e.flag <=> pc' = "Poll")
    [] e.ev = "RoundEnd" -> RoundEnd /\ (e.flag <=> processed)
    [] e.ev = "FbLim" -> FbLim /\ Head(fbq) = e.p
    [] e.ev = "LimDone" -> LimDone
    [] e.ev = "FbFinal" -> FbFinal
    [] e.ev = "Closing" -> Closing
    [] OTHER -> FALSE

NoStep(e) == e.e = "S" /\ e.ev \in {"Err", "Exit"}

Consume ==
  /\ ~stuck /\ l < Len(Log)
  /\ LET e == Log[l + 1] IN
     /\ e.e \notin {"Reset", "Free"}
     /\ l' = l + 1 /\ UNCHANGED <<t0, stuck>>
     /\ CASE e.e = "S" /\ ~NoStep(e) -> SchedStep(e) /\ Snap(e)
          [] NoStep(e) -> UNCHANGED vars
          [] e.e = "W" -> Produce(e.c) /\ written'[e.c] = e.k
          [] e.e = "C" -> CloseIn(e.c)
          [] e.e = "R" -> Recv /\ Head(outq) = <<e.p, e.k>> /\ e.c = e.p
          [] e.e = "L" -> Release(e.p)
          [] OTHER -> UNCHANGED vars

Stuck ==
  /\ ~stuck /\ l < Len(Log) /\ Log[l + 1].e \notin {"Reset", "Free"}
  /\ ~ENABLED Consume
  /\ stuck' = TRUE /\ UNCHANGED <<vars, l, t0>>

TNext == Consume \/ Stuck
TSpec == TInit /\ [][TNext]_tvars

NotStuck == ~stuck
TraceInvariants == TypeOK /\ C01_Capacity /\ C01_Round /\ C01_Conservation /\ C01_AbsInd /\ C02_Order /\ C07_Closed /\ C15_FailSafe
=============================================================================
