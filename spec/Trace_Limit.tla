---------------------------- MODULE Trace_Limit ----------------------------
(* Strict conformance of lock-step traces recorded from the REAL v2 limit discipline (harness/limith, inside
   testing/synctest bubbles) with Limit.tla.  The logged environment actions are Limit's own actions; the
   discipline's steps are silent; after every logged event the recorded observables (virtual time, len(input)
   + blocked writer, len(output), number received, output seen closed) must equal the state reached after the
   silent steps have run out (PrevOK).  The log holds many traces; every trace starts at a Reset record carrying
   its configuration and is validated from its own initial state.  Acceptance: a trace is accepted iff its
   Finish step is reached (ACCEPT line); the per-trace high-water mark (TLCSet register = trace number,
   -workers 1) tells where a rejected trace diverged.  A rejection is DRIFT, never a verdict. *)
EXTENDS Limit, Json

TraceLog == ndJsonDeserialize("limit_trace.ndjson")
NRec == Len(TraceLog)
ResetPos == {n \in 1..NRec : TraceLog[n].ev = "Reset"}

VARIABLES l, done
tvars == <<vars, l, done>>

ObsOK(e) ==
  /\ ~ENABLED Disc
  /\ now = e.now /\ Len(inq) = e.inlen /\ Len(outq) = e.outlen /\ recvd = e.rc
  /\ e.closed = (outClosed /\ outq = <<>>)

More == ~done /\ l < NRec /\ TraceLog[l + 1].ev # "Reset"
Ev(name) == More /\ TraceLog[l + 1].ev = name /\ ObsOK(TraceLog[l]) /\ l' = l + 1 /\ UNCHANGED done

TWrite == Ev("Write") /\ Write /\ written' = TraceLog[l + 1].x
TClose == Ev("Close") /\ CloseIn
TRecv  == Ev("Recv") /\ outq # <<>> /\ Head(outq) = TraceLog[l + 1].x /\ ConsumerRecv
TAdv   == Ev("Adv") /\ Advance
TFinish ==
  /\ ~done /\ (IF l = NRec THEN TRUE ELSE TraceLog[l + 1].ev = "Reset")
  /\ ObsOK(TraceLog[l])
  /\ PrintT(<<"ACCEPT", TraceLog[l].tr>>)
  /\ done' = TRUE /\ UNCHANGED <<vars, l>>
Silent == ~done /\ Disc /\ UNCHANGED <<l, done>>

TInit == \E r \in ResetPos :
           /\ l = r /\ done = FALSE
           /\ InitWith([Q |-> TraceLog[r].q, I |-> TraceLog[r].i, C |-> TraceLog[r].cap])
TNext == TWrite \/ TClose \/ TRecv \/ TAdv \/ TFinish \/ Silent
TSpec == TInit /\ [][TNext]_tvars

\* per-trace high-water mark (side effect of a CONSTRAINT that is always TRUE)
Tr == TraceLog[l].tr
Mark == TLCSet(Tr, IF TLCGet(Tr) < l THEN l ELSE TLCGet(Tr))
ASSUME \A r \in ResetPos : TLCSet(TraceLog[r].tr, 0)
Report == \A r \in ResetPos : PrintT(<<"HW", TraceLog[r].tr, TLCGet(TraceLog[r].tr)>>)
=============================================================================
