--------------------------- MODULE Trace_SimpleV2 ---------------------------
(* Trace validation (code -> spec) for the v2 simplified discipline: the observations recorded by harness/prioh
   TestRecordSimple (writes, closes, Handle entry = R, Handle return = L, Err() closed = EC) must be explainable by
   SimpleV2.tla; the steps of the inner discipline and the handlers' channel operations are not logged (silent, searched by TLC).
   Same acceptance scheme as Trace_SimpleV1: one initial state per trace, accepted traces "violate" NotDone once. *)
EXTENDS SimpleV2, Sequences, Json

Log == ndJsonDeserialize("trace.ndjson")
Starts == {j \in 1..Len(Log) : Log[j].e = "Reset"}
EndOf(t) == CHOOSE j \in (t + 1)..Len(Log) : Log[j].e = "Free" /\ \A k \in (t + 1)..(j - 1) : Log[k].e \notin {"Free", "Reset"}

VARIABLES l, t0, nclosed
tvars == <<vars, l, t0, nclosed>>

TInit == Init /\ t0 \in Starts /\ l = t0 /\ nclosed = 0
NChans == Len(Log[t0].chans)

HRecvItem(h) == outq > 0 /\ HRecv(h) /\ hpc'[h] = "handle"
HRecvExit(h) == outq = 0 /\ HRecv(h)

Consume ==
  /\ l < EndOf(t0) - 1
  /\ l' = l + 1 /\ UNCHANGED t0
  /\ LET e == Log[l + 1] IN
     CASE e.e = "W" -> Write /\ UNCHANGED nclosed
       [] e.e = "C" -> /\ nclosed' = nclosed + 1
                       /\ IF nclosed + 1 = NChans THEN CloseInputs ELSE UNCHANGED vars
       [] e.e = "R" -> (\E h \in Handlers : HRecvItem(h)) /\ UNCHANGED nclosed
       [] e.e = "L" -> (\E h \in Handlers : HHandle(h)) /\ UNCHANGED nclosed
       [] e.e = "EC" -> inner = "closed" /\ UNCHANGED <<vars, nclosed>>
       [] OTHER -> UNCHANGED <<vars, nclosed>>

Silent ==
  /\ l < EndOf(t0) - 1
  /\ \/ InnerSend \/ InnerFb \/ InnerClose
     \/ \E h \in Handlers : HRecvExit(h) \/ HRelease(h)
  /\ UNCHANGED <<l, t0, nclosed>>

TNext == Consume \/ Silent
TSpec == TInit /\ [][TNext]_tvars

Done == l = EndOf(t0) - 1
NotDone == ~Done
TView == IF Done THEN <<t0>> ELSE <<vars, l, nclosed, t0>>
TraceInvariants == TypeOK /\ C01_Simple /\ C07_Closed
=============================================================================
