---------------------------- MODULE JoinInd ----------------------------
(* Counter abstraction of the timed loop of join / unite (Join.tla, Unite.tla) for an inductive proof of C10 with
   Apalache: SYMBOLIC Timeout tmo, ticker period per (0 < per <= tmo; the code takes per = tmo div floor(100/inaccuracy)),
   JoinSize js, unbounded time, any arrival pattern; the regime of the property: a consumer ready to receive (send never
   blocks, release follows at once), the discipline infinitely fast (the ticker never loses a tick: time does not pass the
   next tick instant while the tick is pending - the urgent regime of Join.tla).

     loop:   select { case <-ticker.C: if isTimeouted() { pass() }   case item := <-input: process(item) }
     process: join = append(join, item); if len(join) >= JoinSize { pass() }
     pass:   if len(join) == 0 { resetPassAt(); return };  send(join); resetJoin(); resetPassAt()
     isTimeouted: now - passAt >= Timeout

   State: the clock, passAt, the instant of the next tick, the number of buffered elements and the instant the OLDEST of them
   was accepted (-1: none). C10 reads: n > 0 => now - oldest < tmo + per, and tmo + per <= tmo*(1 + 1/d) because
   per = tmo div d <= tmo/d. Everything is linear.
   The timing clause of C09 rides along (ghosts lastOut, c09ok): a slice cut short by the ticker leaves no earlier than tmo
   after the previous delivery, because passAt is never older than that delivery.

   Twins (derived by text substitution in lib/join.py, each must yield a counter-example): the three timing changes the
   independent agents seeded - passAt reset on an arriving element when the timeout has already expired (C10-a), a tick
   that may be skipped (C10-d: ignored while the input is non-empty), the ticker re-armed with the timeout on a timeouted
   tick (C10-b). *)
EXTENDS Integers

VARIABLES
  \* @type: Int;
  tmo,
  \* @type: Int;
  per,
  \* @type: Int;
  js,
  \* @type: Int;
  now,
  \* @type: Int;
  passAt,
  \* @type: Int;
  nextTick,
  \* @type: Int;
  n,
  \* @type: Int;
  oldest,
  \* @type: Int;
  lastOut,      \* ghost: instant of the previous delivery (creation: 0)
  \* @type: Bool;
  c09ok         \* ghost: every short slice so far left no earlier than tmo after the previous delivery

Init ==
  /\ tmo \in Int /\ per \in Int /\ js \in Int /\ tmo > 0 /\ per > 0 /\ per <= tmo /\ js >= 1
  /\ now = 0 /\ passAt = 0 /\ nextTick = per /\ n = 0 /\ oldest = -1 /\ lastOut = 0 /\ c09ok = TRUE

Accept ==     \* case item := <-input: process(item)
  /\ IF n + 1 >= js
       THEN n' = 0 /\ oldest' = -1 /\ passAt' = now /\ lastOut' = now    \* pass(): send a FULL slice, resetJoin, resetPassAt
       ELSE n' = n + 1 /\ oldest' = (IF n = 0 THEN now ELSE oldest) /\ passAt' = passAt /\ lastOut' = lastOut
  /\ UNCHANGED <<tmo, per, js, now, nextTick, c09ok>>

Timeouted == now - passAt >= tmo        \* isTimeouted()

Tick ==       \* case <-ticker.C: if isTimeouted() { pass() }
  /\ now = nextTick
  /\ nextTick' = nextTick + per
  /\ IF Timeouted THEN
       /\ n' = 0 /\ oldest' = -1 /\ passAt' = now                  \* pass() with or without buffered elements
       /\ lastOut' = (IF n > 0 THEN now ELSE lastOut)              \* n > 0: a SHORT slice leaves (n < js) - the C09 clause
       /\ c09ok' = (c09ok /\ (n > 0 => now - lastOut >= tmo))
     ELSE UNCHANGED <<n, oldest, passAt, lastOut, c09ok>>
  /\ UNCHANGED <<tmo, per, js, now>>

Advance ==
  /\ \E d \in Int : d > 0 /\ now + d <= nextTick /\ now' = now + d
  /\ UNCHANGED <<tmo, per, js, passAt, nextTick, n, oldest, lastOut, c09ok>>

Next == Accept \/ Tick \/ Advance

\* ---------------------------------------------------------------- properties
C10_Bound == n > 0 => now - oldest < tmo + per
C09_Short == c09ok        \* a non-maximal, non-final slice is delivered no earlier than Timeout after the previous delivery (or creation)

IndInv ==
  /\ tmo > 0 /\ per > 0 /\ per <= tmo /\ js >= 1
  /\ now >= 0 /\ passAt >= 0 /\ passAt <= now
  /\ now <= nextTick /\ nextTick - per <= now
  /\ nextTick - per - passAt < tmo          \* at the last tick the timeout had not expired, or passAt was reset since
  /\ n >= 0 /\ n < js
  /\ (n = 0 <=> oldest = -1)
  /\ (n > 0 => passAt <= oldest /\ oldest <= now)
  /\ C10_Bound
  /\ lastOut >= 0 /\ lastOut <= passAt      \* passAt is reset at every delivery (and at empty timeouts): never older than the last delivery
  /\ C09_Short

IndInit ==
  /\ tmo \in Int /\ per \in Int /\ js \in Int /\ now \in Int /\ passAt \in Int /\ nextTick \in Int /\ n \in Int /\ oldest \in Int
  /\ lastOut \in Int /\ c09ok \in BOOLEAN
  /\ IndInv
=========================================================================
