SPECIFICATION Spec
CONSTANTS
 Configs <- CfgsGenBig
 MaxItems = 4  Horizon = 6
 Urgent = TRUE  LockStep = TRUE  ReadyCons = FALSE  EagerProd = FALSE  KeepHist = FALSE
INVARIANTS TypeOK NoViol C04_Struct C04_Cum C12_Order C12_Closed
CHECK_DEADLOCK FALSE
