--------------------------- MODULE Mon_LimitShared ---------------------------
(* C04 and C12 for several limit disciplines fed from ONE input channel, over OBSERVED FACTS ONLY
   (harness/limith/shared_test.go; virtual time, every consumer receiving at once, so received = emitted):
     Reset{n, Q, I}     a new trace: n disciplines, each with rate Q per I units, created at time 0
     O{d, x, now}       element x appeared on the output of discipline d at time now
     Cl{d, now}         the output of discipline d was closed
     End{x}             the input was closed after x elements (1..x written in increasing order) and every consumer has ended
   Rules:  C04  per discipline: the number of its outputs up to now <= Q * (now div I + 1)
           C12  per discipline: its outputs are increasing; nothing after its output closed; at End every discipline has
                closed and every element 1..x appeared exactly once over all outputs. *)
EXTENDS Integers, Sequences, FiniteSets, TLC, Json

Log == ndJsonDeserialize("limit_shared.ndjson")

VARIABLES l, cfg, cnt, last, closed, seen, viol
mvars == <<l, cfg, cnt, last, closed, seen, viol>>

D == 1..16
Init == /\ l = 1 /\ cfg = [n |-> 0, Q |-> 1, I |-> 1, tr |-> 0]
        /\ cnt = [d \in D |-> 0] /\ last = [d \in D |-> 0] /\ closed = {} /\ seen = {} /\ viol = {}

Next ==
  /\ l <= Len(Log)
  /\ l' = l + 1
  /\ LET e == Log[l] IN
     CASE e.ev = "Reset" -> /\ cfg' = [n |-> e.n, Q |-> e.Q, I |-> e.I, tr |-> e.tr]
                            /\ cnt' = [d \in D |-> 0] /\ last' = [d \in D |-> 0] /\ closed' = {} /\ seen' = {} /\ UNCHANGED viol
       [] e.ev = "O" ->
            /\ cnt' = [cnt EXCEPT ![e.d] = @ + 1]
            /\ last' = [last EXCEPT ![e.d] = e.x]
            /\ seen' = seen \cup {e.x}
            /\ viol' = viol \cup (IF cnt[e.d] + 1 > cfg.Q * (e.now \div cfg.I + 1) THEN {<<cfg.tr, "C04">>} ELSE {})
                            \cup (IF e.x <= last[e.d] \/ e.d \in closed \/ e.x \in seen THEN {<<cfg.tr, "C12">>} ELSE {})
            /\ UNCHANGED <<cfg, closed>>
       [] e.ev = "Cl" -> closed' = closed \cup {e.d} /\ UNCHANGED <<cfg, cnt, last, seen, viol>>
       [] e.ev = "End" ->
            /\ viol' = viol \cup (IF closed # 1..cfg.n \/ seen # 1..e.x THEN {<<cfg.tr, "C12">>} ELSE {})
            /\ UNCHANGED <<cfg, cnt, last, closed, seen>>
       [] OTHER -> UNCHANGED <<cfg, cnt, last, closed, seen, viol>>

Spec == Init /\ [][Next]_mvars
AtEnd == l = Len(Log) + 1
M_All == AtEnd => viol = {}
=============================================================================
