---------------------------- MODULE MC_Dividers ----------------------------
(* Theorems of Dividers.tla over an exhaustive small domain: every strictly decreasing priority list of
   1..MaxN values drawn from Universe, every dividend 0..MaxD.  One initial state per case. *)
EXTENDS Dividers, SequencesExt, TLC
CONSTANTS Universe, MaxN, MaxD
VARIABLES ps, d
Desc(s) == SetToSortSeq(s, LAMBDA a, b : a > b)
Lists == {Desc(s) : s \in {t \in SUBSET Universe : Cardinality(t) \in 1..MaxN}}
Init == ps \in Lists /\ d \in 0..MaxD
Next == UNCHANGED <<ps, d>>
FairOK == FairTheorem(ps, d)
RateOK == RateTheorem(ps, d)
\* the deterministic reading is one of the admissible outcomes
RateDetOK == RateInc(ps, d) \in RateOutcomes(ps, d)
\* vacuity guards: the truncation branch and a tie really occur in the domain
NoTrunc == \A i \in 1..Len(ps) : RateInc(ps, d)[i] > 0 \/ d = 0
NoTie == Cardinality(RateOutcomes(ps, d)) = 1
=============================================================================
