SPECIFICATION Spec
CONSTANTS
 Configs <- CfgsGen
 MaxItems = 3  Horizon = 4
 Urgent = TRUE  LockStep = TRUE  ReadyCons = FALSE  EagerProd = FALSE  KeepHist = FALSE
INVARIANTS TypeOK NoViol C04_Struct C04_Cum C12_Order C12_Closed
CHECK_DEADLOCK FALSE
