SPECIFICATION Spec
CONSTANTS
 Configs <- CfgsThorough
 MaxItems = 8  Horizon = 14
 Urgent = TRUE  LockStep = FALSE  ReadyCons = FALSE  EagerProd = FALSE  KeepHist = FALSE
INVARIANTS TypeOK NoViol C04_Struct C04_Cum C12_Order C12_Closed
CHECK_DEADLOCK FALSE
