SPECIFICATION LiveSpecNoCons
CONSTANTS
 Configs <- CfgsLive
 MaxItems = 4  Horizon = 6
 Urgent = TRUE  LockStep = FALSE  ReadyCons = FALSE  EagerProd = FALSE  KeepHist = FALSE
INVARIANTS NoViol C12_Closed
PROPERTIES C12_Live
CHECK_DEADLOCK FALSE
