SPECIFICATION MSpec
INVARIANTS MonTotal
CHECK_DEADLOCK FALSE
