SPECIFICATION Spec
CONSTANTS Configs <- UMid  Lens <- L2  MaxSlices = 4  MaxItems = 7  Horizon = 8  Regime = "urgent"
INVARIANTS NoViol TypeOK C03_Rest C03_Out C08_Frozen C08_CopyFresh
PROPERTIES C09_Action C11_Action
VIEW View
CHECK_DEADLOCK FALSE
