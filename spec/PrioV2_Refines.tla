--------------------------- MODULE PrioV2_Refines ---------------------------
(* Refinement check: the detailed specification of the v2 scheduler (PrioV2.tla) implements the abstraction of the inner discipline
   that SimpleV2.tla is built on (InnerAbs.tla with grace = TRUE: v2 terminates exactly when every input is closed and emptied and
   everything handed out was released; a divider fault plays the part of the stop request). *)
EXTENDS PrioV2

Abs == INSTANCE InnerAbs WITH
  inner    <- IF pc = "Closed" THEN "exited" ELSE "run",
  stopped  <- bad,
  grace    <- TRUE,
  written  <- Sum(written),
  closedIn <- \A p \in Prios : closed[p],
  handed   <- Len(outq) + Sum(recvd),
  dropped  <- 0,
  inflight <- Sum(actual),
  outn     <- Len(outq),
  fbn      <- Len(fbq) + Len(pendq)

AbsSpec == Abs!Spec
AbsCapacity == Abs!Capacity
=============================================================================
