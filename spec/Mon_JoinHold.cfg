SPECIFICATION Spec
INVARIANT M_C09
CHECK_DEADLOCK FALSE
