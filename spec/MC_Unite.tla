----------------------------- MODULE MC_Unite -----------------------------
(* Bounded configurations of Unite.tla. *)
EXTENDS Unite

C(j, t, i, cap, nc) == [J |-> j, T |-> t, I |-> i, InCap |-> cap, NoCopy |-> nc]

UQ == {C(2, t[1], t[2], 1, nc) : t \in {<<0, 0>>, <<2, 1>>}, nc \in BOOLEAN}
UMid == {C(2, t[1], t[2], 1, nc) : t \in {<<0, 0>>, <<4, 2>>}, nc \in BOOLEAN}
UReadyQ == {C(2, t[1], t[2], 1, nc) : t \in {<<2, 2>>, <<2, 1>>}, nc \in BOOLEAN}
UReadyMid == {C(2, t[1], t[2], 1, nc) : t \in {<<4, 4>>, <<4, 2>>, <<4, 1>>}, nc \in BOOLEAN}
USmall == {C(j, t[1], t[2], cap, nc) : j \in {2, 3}, t \in {<<0, 0>>, <<4, 2>>, <<4, 1>>}, cap \in {0, 1}, nc \in BOOLEAN}
UReady == {C(j, t[1], t[2], cap, nc) : j \in {2, 3}, t \in {<<4, 4>>, <<4, 2>>, <<4, 1>>}, cap \in {0, 1}, nc \in BOOLEAN}
UTiny == {C(2, 2, 1, 1, nc) : nc \in BOOLEAN}
\* slice lengths 0, 1, J-1, J, J+1 for J = 2 and J = 3
L2 == {0, 1, 2, 3}
L3 == {0, 1, 2, 3, 4}

View == <<cfg, now, tickAt, tickPending, passAt, join, parts, item, itemAt, inq, inClosed, written,
          outq, pc, after, lent, lastId, oldestAt, lastPutAt, viol>>
=============================================================================
