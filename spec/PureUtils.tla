----------------------------- MODULE PureUtils -----------------------------
(* Validation of recorded calls of the REAL handler-quantity helpers (v1 priority.IsNonFatalConfig ...,
   v2 utils.IsNonFatalConfig ...) and of the v2 constructor against their definition (C18, and the
   constructor clause of C15).  "The divider gives ..." is taken literally: every record carries the rows
   the real divider produced for every non-empty order-preserving sub-list; TLC enumerates the sub-lists
   itself, so a helper that skips or mis-sorts a combination is caught.
   Record kinds (field k):
     nf       : ps, q, res, rows = <<[s |-> sub-list, row |-> pairs]>>          IsNonFatalConfig
     pick     : which \in {"min","max"}, ps, max, res, nf = <<bool for q = 1..max>>  PickUpMin/MaxNonFatalQuantity
     suit     : ps, q, limits, res = <<bool per limit>>, nf                       IsSuitableConfig
     picksuit : which, ps, max, limit, res, suit = <<bool for q = 1..max>>          PickUpMin/MaxSuitableQuantity
     new      : ps, q, nf, res \in {"ok","toosmall","bad",...}, share = pairs      v2 priority.New
     newfault : ps, q, kind, total (what the faulty divider added at creation), res       v2 priority.New with a faulty divider *)
EXTENDS Dividers, SequencesExt, Json, TLC
Calls == ndJsonDeserialize("utils_calls.ndjson")
VARIABLE i
Init == i \in 1..Len(Calls)
Next == UNCHANGED i
C == Calls[i]

ToFn(pairs) == [k \in {pairs[j][1] : j \in 1..Len(pairs)} |-> pairs[CHOOSE j \in 1..Len(pairs) : pairs[j][1] = k][2]]
Desc(s) == SetToSortSeq(s, LAMBDA a, b : a > b)
SubLists(ps) == {Desc(s) : s \in (SUBSET SeqRange(ps)) \ {{}}}

\* the definition: every member of every non-empty sub-list gets at least one unit
RowFor(rows, s) == LET idx == {j \in 1..Len(rows) : rows[j].s = s} IN
                   IF idx = {} THEN <<>> ELSE rows[CHOOSE j \in idx : TRUE].row
HasRow(rows, s) == \E j \in 1..Len(rows) : rows[j].s = s
NonFatalDef(ps, rows) ==
  \A s \in SubLists(ps) : LET r == ToFn(RowFor(rows, s)) IN \A j \in 1..Len(s) : Get(r, s[j]) >= 1

C18_nf == C.k = "nf" => /\ \A s \in SubLists(C.ps) : HasRow(C.rows, s)      \* recorder sanity
                          /\ C.res = NonFatalDef(C.ps, C.rows)

MinOf(v) == LET S == {q \in 1..Len(v) : v[q]} IN IF S = {} THEN 0 ELSE CHOOSE q \in S : \A r \in S : q <= r
MaxOf(v) == LET S == {q \in 1..Len(v) : v[q]} IN IF S = {} THEN 0 ELSE CHOOSE q \in S : \A r \in S : q >= r
C18_pick == C.k = "pick" => /\ Len(C.nf) = C.max
                            /\ C.res = IF C.which = "min" THEN MinOf(C.nf) ELSE MaxOf(C.nf)
C18_suit == C.k = "suit" => /\ \A a, b \in 1..Len(C.limits) : (C.limits[a] <= C.limits[b] /\ C.res[a]) => C.res[b]
                            /\ (\E a \in 1..Len(C.res) : C.res[a]) => C.nf
C18_picksuit == C.k = "picksuit" => /\ Len(C.suit) = C.max
                                    /\ C.res = IF C.which = "min" THEN MinOf(C.suit) ELSE MaxOf(C.suit)
C18_new == C.k = "new" /\ C.res # "skipped" => (C.nf => C.res = "ok")
\* C15, constructor clause: accepted exactly when every configured priority has a non-zero share of q
\* (and the divider is sum-preserving, which the real Fair/Rate are)
ShareFilled == LET sh == ToFn(C.share) IN \A p \in SeqRange(C.ps) : Get(sh, p) >= 1
C15_new == C.k = "new" /\ C.res # "skipped" => /\ (C.res = "ok" <=> (C.q > 0 /\ ShareFilled))
                          /\ (C.q > 0 /\ ~ShareFilled => C.res = "toosmall")
\* C15: a divider that, at creation, returns a non-zero added total different from the dividend makes New return ErrDividerBad
\* and a division at creation that adds nothing leaves every share at zero: rejected as well
C15_newfault == C.k = "newfault" /\ C.res # "skipped" => /\ ((C.total # 0 /\ C.total # C.q) => C.res = "bad")
                                                          /\ (C.total = 0 => C.res # "ok")
=============================================================================
