----------------------------- MODULE Trace_Join -----------------------------
(* Strict conformance of lock-step traces of the REAL join (v2 and v1) with Join.tla: every logged environment action is
   the specification's own action, the discipline's actions are silent steps, and after every record the specification
   must be quiescent and agree with the observations (virtual time, len(input), len(output), Stop returned, received
   contents and memory identity).  A rejection here is DRIFT (the code differs from my model), never a violation.

   Many traces are concatenated; `Reset` starts the next one with its own options.  A trace that cannot be matched is
   abandoned through the skip mode (one dummy state per record) so that the following traces are still validated.
   Per-trace high-water marks and acceptance flags live in TLC registers (-workers 1) and are written to
   trace_out.json when the log is exhausted. *)
EXTENDS Join, Json

Log == ndJsonDeserialize("trace.ndjson")

VARIABLES l, skip, seen, bufId
tvars == <<vars, l, skip, seen, bufId>>

Resets == {i \in 1..Len(Log) : Log[i].ev = "Reset"}
Traces == {Log[i].tr : i \in Resets}
HWB == 1000000      \* register base: high-water mark per trace
ACB == 2000000      \* register base: accepted flag per trace
ASSUME \A t \in Traces : TLCSet(HWB + t, 0) /\ TLCSet(ACB + t, 0)

CfgOf(c) == [J |-> c.J, T |-> c.T, I |-> c.I, InCap |-> c.cap, NoCopy |-> c.nocopy, V1 |-> c.v1]
Dummy == [J |-> 1, T |-> 0, I |-> 0, InCap |-> 0, NoCopy |-> FALSE, V1 |-> FALSE]

SetTo(c) ==
  /\ cfg' = c
  /\ now' = 0 /\ tickAt' = c.I /\ tickPending' = FALSE /\ passAt' = 0
  /\ join' = <<>> /\ inq' = <<>> /\ inClosed' = FALSE /\ written' = 0
  /\ outq' = <<>> /\ pc' = "Select" /\ after' = "Select"
  /\ stopReq' = FALSE /\ cancelled' = FALSE /\ unreleased' = FALSE /\ lent' = FALSE
  /\ nSent' = 0 /\ lastId' = 0 /\ oldestAt' = -1 /\ lastPutAt' = 0 /\ viol' = "none"
  /\ seen' = {} /\ bufId' = 0

ObsOK(e) ==
  /\ Quiet
  /\ now = e.now /\ Len(inq) = e.inlen /\ Len(outq) = e.outlen
  /\ e.stopret = (stopReq /\ pc = "Exited")

PrevOK == IF l = 0 THEN TRUE ELSE ObsOK(Log[l])
Ev(name) == ~skip /\ l < Len(Log) /\ Log[l + 1].ev = name /\ PrevOK /\ l' = l + 1 /\ skip' = FALSE
Keep == UNCHANGED <<seen, bufId>>
Stutter == UNCHANGED vars /\ Keep

\* the previous trace is accepted when the next Reset (or the end of the log) is reached on the matching path
MarkAccepted == IF l = 0 THEN TRUE ELSE TLCSet(ACB + Log[l].tr, 1)

TReset ==
  /\ l < Len(Log) /\ Log[l + 1].ev = "Reset"
  /\ IF skip THEN TRUE ELSE IF PrevOK THEN MarkAccepted ELSE TRUE
  /\ l' = l + 1 /\ skip' = FALSE
  /\ SetTo(CfgOf(Log[l + 1].c))

TSkip ==   \* abandon the current trace: dummy state, one per record, until the next Reset
  /\ l < Len(Log) /\ Log[l + 1].ev # "Reset"
  /\ l' = l + 1 /\ skip' = TRUE
  /\ SetTo(Dummy)

TWrite == Ev("Write") /\ Write /\ written' = Log[l + 1].x /\ Keep
TClose == Ev("Close") /\ CloseIn /\ Keep
TRecv ==
  /\ Ev("Recv") /\ outq # <<>> /\ Head(outq).elems = Log[l + 1].elems
  /\ ConsumerRecv
  /\ LET id == Log[l + 1].mem IN
     IF cfg.NoCopy
     THEN IF bufId = 0 THEN id \notin seen /\ bufId' = id /\ seen' = seen \cup {id}
          ELSE id = bufId /\ Keep
     ELSE id \notin seen /\ seen' = seen \cup {id} /\ UNCHANGED bufId
TRecvClosed == Ev("RecvClosed") /\ pc = "Exited" /\ outq = <<>> /\ Stutter
TRecvNone == Ev("RecvNone") /\ pc # "Exited" /\ outq = <<>> /\ Stutter
TScribble == Ev("Scribble") /\ Stutter
TDeadline == Ev("Deadline") /\ Stutter
TRejected == Ev("Rejected") /\ Stutter   \* the constructor refused the options: nothing ran
TRelease ==
  /\ Ev("Release") /\ Keep
  /\ IF Log[l + 1].ok THEN Released ELSE pc # "RelWait" /\ UNCHANGED vars
TAdv == Ev("Adv") /\ Advance(1) /\ Keep
TStop == Ev("Stop") /\ Stop /\ Keep
TCancel == Ev("Cancel") /\ Cancel /\ Keep

TFinish ==
  /\ ~skip /\ l = Len(Log) /\ l > 0 /\ ObsOK(Log[l]) /\ MarkAccepted
  /\ l' = l + 1 /\ UNCHANGED <<vars, skip, seen, bufId>>

Silent == ~skip /\ l > 0 /\ l <= Len(Log) /\ (Disc \/ TickFire) /\ UNCHANGED <<l, skip, seen, bufId>>

TInit == InitWith(Dummy) /\ l = 0 /\ skip = TRUE /\ seen = {} /\ bufId = 0
TNext == TReset \/ TSkip \/ TWrite \/ TClose \/ TRecv \/ TRecvClosed \/ TRecvNone \/ TScribble \/ TDeadline \/ TRejected \/ TRelease
         \/ TAdv \/ TStop \/ TCancel \/ TFinish \/ Silent
TSpec == TInit /\ [][TNext]_tvars

\* high-water mark of the matching path, per trace (CONSTRAINT: always TRUE, side effect only)
Mark ==
  IF skip \/ l = 0 \/ l > Len(Log) THEN TRUE
  ELSE LET t == Log[l].tr IN TLCSet(HWB + t, IF TLCGet(HWB + t) < l THEN l ELSE TLCGet(HWB + t))

Report ==
  JsonSerialize("trace_out.json",
    [events |-> Len(Log),
     traces |-> [r \in Resets |->
                   [tr |-> Log[r].tr, first |-> r, hw |-> TLCGet(HWB + Log[r].tr), accepted |-> TLCGet(ACB + Log[r].tr) = 1]]])
=============================================================================
