------------------------------ MODULE MC_Join ------------------------------
(* Bounded configurations of Join.tla.  cfg files cannot hold records, hence the definitions here. *)
EXTENDS Join

C(j, t, i, cap, nc, v1) == [J |-> j, T |-> t, I |-> i, InCap |-> cap, NoCopy |-> nc, V1 |-> v1]

\* quick tier
V2Q == {C(2, t[1], t[2], cap, nc, FALSE) : t \in {<<0, 0>>, <<4, 2>>}, cap \in {0, 1}, nc \in BOOLEAN}
V2ReadyQ == {C(j, t[1], t[2], 1, nc, FALSE) : j \in {2, 3}, t \in {<<4, 4>>, <<4, 2>>, <<4, 1>>}, nc \in BOOLEAN}
V1Q == {C(2, t[1], t[2], 1, nc, TRUE) : t \in {<<0, 0>>, <<2, 1>>}, nc \in BOOLEAN}
\* thorough tier: JoinSize 2..3, T = 4 with Div 2 and 4, and no timeout; input capacity 0..1; copy and no-copy
V2Small == {C(j, t[1], t[2], cap, nc, FALSE) : j \in {2, 3}, t \in {<<0, 0>>, <<4, 2>>, <<4, 1>>}, cap \in {0, 1}, nc \in BOOLEAN}
V2Ready == {C(j, t[1], t[2], cap, nc, FALSE) : j \in {2, 3}, t \in {<<4, 4>>, <<4, 2>>, <<4, 1>>}, cap \in {0, 1, 2}, nc \in BOOLEAN}
\* v1: Stop / Cancel enabled in every state
V1Small == {C(j, t[1], t[2], cap, nc, TRUE) : j \in {2}, t \in {<<0, 0>>, <<4, 2>>}, cap \in {0, 1}, nc \in BOOLEAN}
\* tiny configurations whose whole state graph is dumped to derive replay schedules
V2Tiny == {C(2, 2, 1, 1, nc, FALSE) : nc \in BOOLEAN}
V1Tiny == {C(2, 2, 1, 1, nc, TRUE) : nc \in BOOLEAN}

\* history counters that do not influence the future are hidden (states differing only in them are merged)
View == <<cfg, now, tickAt, tickPending, passAt, join, inq, inClosed, written, outq, pc, after,
          stopReq, cancelled, unreleased, lent, lastId, oldestAt, lastPutAt, viol>>
=============================================================================
