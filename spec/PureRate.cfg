INIT Init
NEXT Next
INVARIANTS C13_post C13_err C13_invalid Conf
CHECK_DEADLOCK FALSE
