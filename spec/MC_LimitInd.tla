---------------------------- MODULE MC_LimitInd ----------------------------
(* The one non-linear step between LimitInd!C04_Linear and the formula of C04, checked by TLC on a grid:
   for naturals q, iv > 0, nb >= 1:   e <= q*nb  /\  iv*(nb-1) <= t   =>   e <= q*(t \div iv + 1)
   The window clause of C04 is decided by TLC on the emission history of Limit.tla (C04_Pairwise) and by the monitor
   on recorded traces; LimitInd contributes the spacing of batch starts (Spacing) it follows from. *)
EXTENDS Integers
R == 0..14
ASSUME Bridge == \A q \in 1..4 : \A iv \in 1..5 : \A nb \in 1..8 : \A e \in R : \A t \in 0..24 :
                    (e <= q * nb /\ iv * (nb - 1) <= t) => e <= q * (t \div iv + 1)
\* the bound is tight: with one batch less allowed it fails somewhere on the grid (vacuity guard, evaluated to FALSE => TLC error)
ASSUME Tight == \E q \in 1..4 : \E iv \in 1..5 : \E nb \in 1..8 : \E e \in R : \E t \in 0..24 :
                    (e <= q * nb /\ iv * (nb - 1) <= t) /\ ~(e <= q * (t \div iv))
VARIABLE x
Init == x = 0
Next == x' = x
=============================================================================
