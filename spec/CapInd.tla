---------------------------- MODULE CapInd ----------------------------
(* Counter abstraction of the priority scheduler's capacity accounting, for an inductive proof
   with Apalache: 3 priorities, symbolic H, arbitrary (sum-preserving or detected-bad) divider. *)
EXTENDS Integers

Prios == {1, 2, 3}

VARIABLES
  \* @type: Int;
  h,
  \* @type: Str;
  pc,
  \* @type: Int -> Int;
  actual,
  \* @type: Int -> Int;
  tactic,
  \* @type: Int -> Int;
  out,      \* handed out on the output, release not yet issued (output buffer + held by handlers)
  \* @type: Int -> Int;
  fb,       \* release issued, not yet consumed by the scheduler (pending + feedback buffer)
  \* @type: Int;
  carry     \* 0 = none, else the priority of the item read and not yet sent

\* @type: (Int -> Int) => Int;
Sum(f) == f[1] + f[2] + f[3]
\* @type: (Int -> Int) => Bool;
Nat3(f) == f[1] >= 0 /\ f[2] >= 0 /\ f[3] >= 0
Zero == [p \in Prios |-> 0]

Init ==
  /\ h \in Int /\ h > 0
  /\ pc = "Calc" /\ actual = Zero /\ tactic = Zero /\ out = Zero /\ fb = Zero /\ carry = 0

\* any distribution the divider may return that passes safeDivide for dividend d (sum = d), or all-zero
\* @type: (Int -> Int, Int) => Bool;
Divided(t, d) == t \in [Prios -> Int] /\ Nat3(t) /\ (Sum(t) = d \/ Sum(t) = 0)

Calc ==
  /\ pc = "Calc"
  /\ LET vac == h - Sum(actual) IN
     \/ /\ vac = 0 /\ pc' = "WaitFb" /\ UNCHANGED tactic
     \/ /\ vac > 0
        /\ \E t \in [Prios -> Int] : Divided(t, vac) /\ tactic' = t   \* add-up path checks picked = vacants; base path uses safeDivide
        /\ pc' \in {"Poll", "WaitFb"}
     \/ /\ vac > 0 /\ pc' = "Err" /\ UNCHANGED tactic                  \* bad divider detected
  /\ UNCHANGED <<h, actual, out, fb, carry>>

FbRead ==   \* getOneFeedback / getLimitedFeedback / waitZeroActual
  /\ pc \in {"WaitFb", "LimFb", "Final"}
  /\ \E p \in Prios :
       /\ fb[p] > 0
       /\ fb' = [fb EXCEPT ![p] = @ - 1] /\ actual' = [actual EXCEPT ![p] = @ - 1]
  /\ pc' = IF pc = "WaitFb" THEN "Calc" ELSE pc
  /\ UNCHANGED <<h, tactic, out, carry>>

Take ==
  /\ pc = "Poll" /\ carry = 0
  /\ \E p \in Prios : tactic[p] > 0 /\ carry' = p
  /\ pc' = "Send"
  /\ UNCHANGED <<h, actual, tactic, out, fb>>

Send ==
  /\ pc = "Send" /\ carry # 0
  /\ tactic' = [tactic EXCEPT ![carry] = @ - 1]
  /\ actual' = [actual EXCEPT ![carry] = @ + 1]
  /\ out' = [out EXCEPT ![carry] = @ + 1]
  /\ carry' = 0 /\ pc' = "Poll"
  /\ UNCHANGED <<h, fb>>

Recalc ==
  /\ pc = "Poll" /\ carry = 0
  /\ \E t \in [Prios -> Int] : Divided(t, Sum(tactic)) /\ tactic' = t
  /\ pc' \in {"Poll", "LimFb", "Err"}
  /\ UNCHANGED <<h, actual, out, fb, carry>>

EndRound ==
  /\ pc = "Poll" /\ carry = 0
  /\ pc' \in {"LimFb", "Final"}
  /\ UNCHANGED <<h, actual, tactic, out, fb, carry>>

LimDone == pc = "LimFb" /\ pc' = "Calc" /\ UNCHANGED <<h, actual, tactic, out, fb, carry>>
ErrToFinal == pc = "Err" /\ pc' = "Final" /\ UNCHANGED <<h, actual, tactic, out, fb, carry>>
Close == pc = "Final" /\ Sum(actual) = 0 /\ pc' = "Closed" /\ UNCHANGED <<h, actual, tactic, out, fb, carry>>

Release ==   \* environment: a handler issues Release(p)
  /\ \E p \in Prios : out[p] > 0 /\ out' = [out EXCEPT ![p] = @ - 1] /\ fb' = [fb EXCEPT ![p] = @ + 1]
  /\ UNCHANGED <<h, pc, actual, tactic, carry>>

Next == Calc \/ FbRead \/ Take \/ Send \/ Recalc \/ EndRound \/ LimDone \/ ErrToFinal \/ Close \/ Release

\* ---------------------------------------------------------------- properties
Capacity == Sum(out) <= h                       \* C01, external reading

IndInv ==
  /\ h > 0
  /\ pc \in {"Calc", "WaitFb", "Poll", "Send", "LimFb", "Final", "Err", "Closed"}
  /\ actual \in [Prios -> Int] /\ tactic \in [Prios -> Int] /\ out \in [Prios -> Int] /\ fb \in [Prios -> Int]
  /\ Nat3(actual) /\ Nat3(tactic) /\ Nat3(out) /\ Nat3(fb)
  /\ carry \in {0, 1, 2, 3}
  /\ \A p \in Prios : actual[p] = out[p] + fb[p]               \* conservation
  /\ Sum(actual) <= h
  /\ (pc \in {"Poll", "Send"} => Sum(actual) + Sum(tactic) <= h)
  /\ (pc = "Send" <=> carry # 0)
  /\ (carry # 0 => tactic[carry] > 0)
  /\ (pc = "Closed" => Sum(actual) = 0)

IndInit ==
  /\ h \in Int
  /\ pc \in {"Calc", "WaitFb", "Poll", "Send", "LimFb", "Final", "Err", "Closed"}
  /\ actual \in [Prios -> Int] /\ tactic \in [Prios -> Int] /\ out \in [Prios -> Int] /\ fb \in [Prios -> Int]
  /\ carry \in {0, 1, 2, 3}
  /\ IndInv
=======================================================================
