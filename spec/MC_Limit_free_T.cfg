SPECIFICATION Spec
CONSTANTS
 Configs <- CfgsThorough
 MaxItems = 7  Horizon = 12
 Urgent = FALSE  LockStep = FALSE  ReadyCons = FALSE  EagerProd = FALSE  KeepHist = FALSE
INVARIANTS TypeOK NoViol C04_Struct C04_Cum C12_Order C12_Closed
CHECK_DEADLOCK FALSE
