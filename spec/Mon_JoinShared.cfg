SPECIFICATION Spec
INVARIANT M_C10
CHECK_DEADLOCK FALSE
