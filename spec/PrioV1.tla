------------------------------- MODULE PrioV1 -------------------------------
(* The v1 priority discipline (priority/priority.go): the same scheduling round as v2 (see PrioV2.tla) plus
   - user-owned Output and Feedback channels,
   - the `select` at the top of every loop iteration serving Stop (breaker), context cancellation,
     AddInput, RemoveInput and one feedback value (Go picks uniformly among the READY cases, `default`
     only when none is ready),
   - stop/cancel alternatives at every blocking point (getOneFeedback, io/iou, send, getLimitedFeedback,
     waitZeroActual),
   - GracefulStop: terminate when a round processed nothing and every registered input is drained,
   - a dynamic list of priorities; strategic = Divider(priorities, H, nil) WITHOUT safeDivide and without
     the "filled" check (zero shares are accepted: finding F4).
   One scheduler action = one event of the verification hooks (names in the comments).
   F3Fixed = FALSE models the pinned tree, where getOneFeedback returning on Stop sends waitCalcTactic
   straight back to calcTactic (a busy spin that never reaches the top select when all handlers are busy);
   TRUE models the repaired loop (tactic reset, round abandoned). *)
EXTENDS Integers, Sequences, FiniteSets, TLC

CONSTANTS Universe,     \* priorities that may ever be registered
          NC,           \* input channels are 1..NC
          InitChan,     \* [priority -> channel id registered at creation, 0 = none]
          H, DivTbl,    \* HandlersQuantity; real divider table over sub-lists of Universe x 0..H
          InCap,        \* [channel -> capacity], 0 = unbuffered
          Items,        \* [channel -> number of items its producer writes]
          OutCap, FbCap,\* capacities of the user's output / feedback channels (>= 1)
          FbLimit,      \* max(H \div 10, 1)
          AllowStop, AllowCancel, AllowGraceful,   \* which control calls the environment may issue
          Adds,         \* set of <<channel, priority>> AddInput calls the environment may issue (each at most once)
          Rmvs,         \* set of priorities RemoveInput may be called with (each at most once)
          FaultBudget, F3Fixed

Chans == 1..NC
USeq == LET RECURSIVE Desc(_) Desc(S) == IF S = {} THEN <<>> ELSE LET m == CHOOSE x \in S : \A y \in S : x >= y IN <<m>> \o Desc(S \ {m}) IN Desc(Universe)
ZeroU == [p \in Universe |-> 0]
SumU(f) == LET F[i \in 0..Len(USeq)] == IF i = 0 THEN 0 ELSE F[i-1] + f[USeq[i]] IN F[Len(USeq)]
SumSeq(s) == LET F[i \in 0..Len(s)] == IF i = 0 THEN 0 ELSE F[i-1] + s[i] IN F[Len(s)]
InSlots(c) == IF InCap[c] = 0 THEN 1 ELSE InCap[c]
InsertDesc(s, p) == IF \E i \in 1..Len(s) : s[i] = p THEN s
                    ELSE SelectSeq(s, LAMBDA x : x > p) \o <<p>> \o SelectSeq(s, LAMBDA x : x < p)

DivInc(ps, d) == IF ps = <<>> THEN <<>> ELSE DivTbl[<<ps, d>>]
Faulty(inc, f) ==
  IF inc = <<>> \/ f = "none" THEN inc
  ELSE IF f = "over" THEN [inc EXCEPT ![1] = @ + 1]
  ELSE LET pos == {i \in 1..Len(inc) : inc[i] > 0} IN
       IF pos = {} THEN inc ELSE [inc EXCEPT ![CHOOSE i \in pos : \A j \in pos : i <= j] = @ - 1]
AsDist(ps, inc) == [p \in Universe |-> IF \E i \in 1..Len(ps) : ps[i] = p
                                      THEN inc[CHOOSE i \in 1..Len(ps) : ps[i] = p] ELSE 0]
Accepted(inc, d) == SumSeq(inc) = 0 \/ SumSeq(inc) = d
Filled(ps, t) == \A i \in 1..Len(ps) : t[ps[i]] # 0
StrategicOf(ps) == AsDist(ps, DivInc(ps, H))

VARIABLES pc, idx, phase, actual, tactic, processed, carry, lim, drained, intr, bad, finfo,
          prios, strategic, chanOf,
          stopReq, ctxDone, graceReq, addq, rmvq, addsDone, rmvsDone,
          inq, closed, written, outq, fbq, pendq, held, recvd, lost

svars == <<pc, idx, phase, actual, tactic, processed, carry, lim, drained, intr, bad, finfo, prios, strategic, chanOf>>
cvars == <<stopReq, ctxDone, graceReq, addq, rmvq, addsDone, rmvsDone>>
evars == <<inq, closed, written, outq, fbq, pendq, held, recvd, lost>>
vars == <<svars, cvars, evars>>

InitPrios == SelectSeq(USeq, LAMBDA p : InitChan[p] # 0)
Init ==
  /\ pc = "Start" /\ idx = 1 /\ phase = 1
  /\ actual = ZeroU /\ tactic = ZeroU /\ processed = FALSE /\ carry = <<>> /\ lim = 0
  /\ drained = [p \in Universe |-> FALSE] /\ intr = FALSE /\ bad = FALSE /\ finfo = <<>>
  /\ prios = InitPrios /\ strategic = StrategicOf(InitPrios) /\ chanOf = InitChan
  /\ stopReq = FALSE /\ ctxDone = FALSE /\ graceReq = FALSE /\ addq = <<>> /\ rmvq = <<>> /\ addsDone = {} /\ rmvsDone = {}
  /\ inq = [c \in Chans |-> <<>>] /\ closed = [c \in Chans |-> FALSE] /\ written = [c \in Chans |-> 0]
  /\ outq = <<>> /\ fbq = <<>> /\ pendq = <<>> /\ held = ZeroU /\ recvd = [c \in Chans |-> 0] /\ lost = [c \in Chans |-> 0]

N == Len(prios)
FilterP(P(_)) == SelectSeq(prios, P)
Interrupted == stopReq \/ ctxDone
FbRecv == /\ fbq # <<>>
          /\ IF pendq # <<>> THEN fbq' = Append(Tail(fbq), Head(pendq)) /\ pendq' = Tail(pendq)
             ELSE fbq' = Tail(fbq) /\ UNCHANGED pendq
          /\ actual' = [actual EXCEPT ![Head(fbq)] = @ - 1]
NextPollable == LET c == {i \in idx..N : ~drained[prios[i]] /\ tactic[prios[i]] # 0}
                IN IF c = {} THEN 0 ELSE CHOOSE i \in c : \A j \in c : i <= j
FaultChoices == IF FaultBudget > 0 /\ finfo = <<>> THEN {"none", "over", "under"} ELSE {"none"}
AllDrained == \A i \in 1..N : drained[prios[i]]
UNCH_ctl == UNCHANGED cvars
UNCH_cfg == UNCHANGED <<prios, strategic, chanOf>>

\* ---------------------------------------------------------------- scheduler
Start ==    \* hook Start
  /\ pc = "Start" /\ pc' = "Top"
  /\ UNCHANGED <<idx, phase, actual, tactic, processed, carry, lim, drained, intr, bad, finfo>> /\ UNCH_cfg /\ UNCH_ctl /\ UNCHANGED evars

\* the select at the top of loop(): any READY case may be taken; default only when none is ready
TopStop ==  \* hook TopStop / TopCtx
  /\ pc = "Top" /\ Interrupted /\ pc' = "Final"
  /\ UNCHANGED <<idx, phase, actual, tactic, processed, carry, lim, drained, intr, bad, finfo>> /\ UNCH_cfg /\ UNCH_ctl /\ UNCHANGED evars
TopAdd ==   \* hook TopAdd{p}: addInput (replaces the channel, appends and sorts a new priority), the AddInput call returns
  /\ pc = "Top" /\ addq # <<>>
  /\ LET c == addq[1]  p == addq[2]  ps == InsertDesc(prios, p) IN
       /\ prios' = ps /\ strategic' = StrategicOf(ps)
       /\ chanOf' = [chanOf EXCEPT ![p] = c] /\ drained' = [drained EXCEPT ![p] = FALSE]
  /\ addq' = <<>> /\ addsDone' = addsDone \cup {addq}
  /\ pc' = "Calc" /\ processed' = FALSE
  /\ UNCHANGED <<idx, phase, actual, tactic, carry, lim, intr, bad, finfo, stopReq, ctxDone, graceReq, rmvq, rmvsDone>> /\ UNCHANGED evars
TopRemove == \* hook TopRemove{p}: removeInput, the RemoveInput call returns
  /\ pc = "Top" /\ rmvq # <<>>
  /\ LET p == rmvq[1]  ps == SelectSeq(prios, LAMBDA x : x # p) IN
       /\ prios' = ps /\ strategic' = StrategicOf(ps)
       /\ chanOf' = [chanOf EXCEPT ![p] = 0] /\ tactic' = [tactic EXCEPT ![p] = 0]
       /\ drained' = [drained EXCEPT ![p] = FALSE]
  /\ rmvq' = <<>> /\ rmvsDone' = rmvsDone \cup {rmvq[1]}
  /\ pc' = "Calc" /\ processed' = FALSE
  /\ UNCHANGED <<idx, phase, actual, carry, lim, intr, bad, finfo, stopReq, ctxDone, graceReq, addq, addsDone>> /\ UNCHANGED evars
TopFb ==    \* hook TopFb{p}
  /\ pc = "Top" /\ FbRecv
  /\ pc' = "Calc" /\ processed' = FALSE
  /\ UNCHANGED <<idx, phase, tactic, carry, lim, drained, intr, bad, finfo>> /\ UNCH_cfg /\ UNCH_ctl
  /\ UNCHANGED <<inq, closed, written, outq, held, recvd, lost>>
TopDefault == \* hook TopDefault
  /\ pc = "Top" /\ ~Interrupted /\ addq = <<>> /\ rmvq = <<>> /\ fbq = <<>>
  /\ pc' = "Calc" /\ processed' = FALSE
  /\ UNCHANGED <<idx, phase, actual, tactic, carry, lim, drained, intr, bad, finfo>> /\ UNCH_cfg /\ UNCH_ctl /\ UNCHANGED evars

Calc ==     \* calcTactic(); hook Calc{proceed} (hook Bad when the division is rejected)
  /\ pc = "Calc"
  /\ LET vac == H - SumU(actual) IN
     IF vac = 0 THEN pc' = "WaitFb" /\ UNCHANGED <<tactic, bad, finfo>>
     ELSE IF (\A i \in 1..N : actual[prios[i]] <= strategic[prios[i]])
             /\ SumSeq([i \in 1..N |-> strategic[prios[i]] - actual[prios[i]]]) = vac
          THEN /\ tactic' = [p \in Universe |-> IF \E i \in 1..N : prios[i] = p THEN strategic[p] - actual[p] ELSE 0]
               /\ pc' = "Poll" /\ UNCHANGED <<bad, finfo>>
          ELSE LET unc == FilterP(LAMBDA p : actual[p] < strategic[p]) IN
               \E f \in FaultChoices :
                 LET inc == Faulty(DivInc(unc, vac), f) IN
                 /\ finfo' = IF f = "none" \/ inc = DivInc(unc, vac) THEN finfo ELSE <<f, 1>>
                 /\ tactic' = AsDist(unc, inc)
                 /\ IF Accepted(inc, vac)
                    THEN pc' = (IF Filled(unc, AsDist(unc, inc)) THEN "Poll" ELSE "WaitFb") /\ UNCHANGED bad
                    ELSE pc' = "Final" /\ bad' = TRUE
  /\ idx' = 1 /\ phase' = 1
  /\ UNCHANGED <<actual, processed, carry, lim, drained, intr>> /\ UNCH_cfg /\ UNCH_ctl /\ UNCHANGED evars

FbOne ==    \* getOneFeedback(): hook FbOne
  /\ pc = "WaitFb" /\ FbRecv /\ pc' = "Calc"
  /\ UNCHANGED <<idx, phase, tactic, processed, carry, lim, drained, intr, bad, finfo>> /\ UNCH_cfg /\ UNCH_ctl
  /\ UNCHANGED <<inq, closed, written, outq, held, recvd, lost>>
OneStop ==  \* getOneFeedback() returns on stop/cancel: hook OneStop / OneCtx
  /\ pc = "WaitFb" /\ Interrupted
  /\ IF F3Fixed THEN tactic' = ZeroU /\ pc' = "Poll" /\ idx' = 1 /\ phase' = 1
     ELSE pc' = "Calc" /\ UNCHANGED <<tactic, idx, phase>>       \* pinned tree: straight back to calcTactic
  /\ UNCHANGED <<actual, processed, carry, lim, drained, intr, bad, finfo>> /\ UNCH_cfg /\ UNCH_ctl /\ UNCHANGED evars

Take ==     \* hook SendStart{p}
  /\ pc = "Poll" /\ NextPollable # 0
  /\ LET p == prios[NextPollable]  c == chanOf[p] IN
       /\ inq[c] # <<>>
       /\ carry' = <<p, c, Head(inq[c])>> /\ inq' = [inq EXCEPT ![c] = Tail(@)]
       /\ idx' = NextPollable /\ pc' = "Send" /\ intr' = FALSE
  /\ UNCHANGED <<phase, actual, tactic, processed, lim, drained, bad, finfo>> /\ UNCH_cfg /\ UNCH_ctl
  /\ UNCHANGED <<closed, written, outq, fbq, pendq, held, recvd, lost>>
Send ==     \* hook Send{p}
  /\ pc = "Send" /\ Len(outq) < OutCap
  /\ outq' = Append(outq, carry)
  /\ tactic' = [tactic EXCEPT ![carry[1]] = @ - 1] /\ actual' = [actual EXCEPT ![carry[1]] = @ + 1]
  /\ carry' = <<>> /\ processed' = TRUE /\ pc' = "Poll"
  /\ UNCHANGED <<idx, phase, lim, drained, intr, bad, finfo>> /\ UNCH_cfg /\ UNCH_ctl
  /\ UNCHANGED <<inq, closed, written, fbq, pendq, held, recvd, lost>>
SendStop == \* send() gives up on stop/cancel: the item already read is dropped; hook SendStop / SendCtx
  /\ pc = "Send" /\ Interrupted
  /\ lost' = [lost EXCEPT ![carry[2]] = @ + 1]
  /\ carry' = <<>> /\ pc' = "Poll"
  /\ UNCHANGED <<idx, phase, actual, tactic, processed, lim, drained, intr, bad, finfo>> /\ UNCH_cfg /\ UNCH_ctl
  /\ UNCHANGED <<inq, closed, written, outq, fbq, pendq, held, recvd>>
PollStop == \* io/iou return on stop/cancel, prioritize() goes on with the next priority; hook PollStop / PollCtx
  /\ pc = "Poll" /\ NextPollable # 0 /\ Interrupted
  /\ idx' = NextPollable + 1 /\ intr' = FALSE
  /\ UNCHANGED <<pc, phase, actual, tactic, processed, carry, lim, drained, bad, finfo>> /\ UNCH_cfg /\ UNCH_ctl /\ UNCHANGED evars
PollEmpty == \* hook PollEmpty{p}
  /\ pc = "Poll" /\ NextPollable # 0 /\ ~Interrupted
  /\ LET c == chanOf[prios[NextPollable]] IN InCap[c] # 0 /\ inq[c] = <<>> /\ ~closed[c]
  /\ idx' = NextPollable + 1
  /\ UNCHANGED <<pc, phase, actual, tactic, processed, carry, lim, drained, intr, bad, finfo>> /\ UNCH_cfg /\ UNCH_ctl /\ UNCHANGED evars
PollTick == \* hook PollTick{p, interrupt}
  /\ pc = "Poll" /\ NextPollable # 0
  /\ LET c == chanOf[prios[NextPollable]] IN InCap[c] = 0    \* also when the channel is closed: select picks any ready case
  /\ IF intr THEN idx' = NextPollable + 1 /\ intr' = FALSE ELSE idx' = NextPollable /\ intr' = TRUE
  /\ UNCHANGED <<pc, phase, actual, tactic, processed, carry, lim, drained, bad, finfo>> /\ UNCH_cfg /\ UNCH_ctl /\ UNCHANGED evars
Drain ==    \* hook Drained{p}
  /\ pc = "Poll" /\ NextPollable # 0
  /\ LET p == prios[NextPollable]  c == chanOf[p] IN
       /\ inq[c] = <<>> /\ closed[c] /\ drained' = [drained EXCEPT ![p] = TRUE]
  /\ idx' = NextPollable + 1 /\ intr' = FALSE
  /\ UNCHANGED <<pc, phase, actual, tactic, processed, carry, lim, bad, finfo>> /\ UNCH_cfg /\ UNCH_ctl /\ UNCHANGED evars

Recalc ==   \* hook Recalc{proceed} (hook Bad on a rejected division)
  /\ pc = "Poll" /\ phase = 1 /\ NextPollable = 0
  /\ LET rem == SumU(tactic)
         us1 == FilterP(LAMBDA p : tactic[p] = 0)
     IN \E f1 \in FaultChoices :
        LET inc1 == Faulty(DivInc(us1, H), f1)
            fi1 == IF f1 = "none" \/ inc1 = DivInc(us1, H) THEN finfo ELSE <<f1, 1>>
        IN IF ~Accepted(inc1, H)
           THEN /\ pc' = "Final" /\ bad' = TRUE /\ finfo' = fi1 /\ tactic' = AsDist(us1, inc1) /\ UNCHANGED <<idx, phase>>
           ELSE LET t1 == AsDist(us1, inc1)
                    us2 == FilterP(LAMBDA p : actual[p] < t1[p])
                IN \E f2 \in (IF FaultBudget > 0 /\ fi1 = <<>> THEN {"none", "over", "under"} ELSE {"none"}) :
                   LET inc2 == Faulty(DivInc(us2, rem), f2)
                       t2 == AsDist(us2, inc2)
                   IN /\ finfo' = IF f2 = "none" \/ inc2 = DivInc(us2, rem) THEN fi1 ELSE <<f2, 2>>
                      /\ tactic' = t2
                      /\ IF ~Accepted(inc2, rem) THEN pc' = "Final" /\ bad' = TRUE /\ UNCHANGED <<idx, phase>>
                         ELSE /\ UNCHANGED bad
                              /\ IF Filled(us2, t2) THEN pc' = "Poll" /\ idx' = 1 /\ phase' = 2
                                 ELSE pc' = "RoundEnd" /\ UNCHANGED <<idx, phase>>
  /\ UNCHANGED <<actual, processed, carry, lim, drained, intr>> /\ UNCH_cfg /\ UNCH_ctl /\ UNCHANGED evars

RoundEnd == \* hook RoundEnd{processed}
  /\ \/ pc = "RoundEnd"
     \/ pc = "Poll" /\ phase = 2 /\ NextPollable = 0
  /\ pc' = (IF processed THEN "LimFb" ELSE "GraceChk") /\ lim' = 0
  /\ UNCHANGED <<idx, phase, actual, tactic, processed, carry, drained, intr, bad, finfo>> /\ UNCH_cfg /\ UNCH_ctl /\ UNCHANGED evars
GraceExit == graceReq /\ AllDrained
Graceful == \* hook Graceful: graceful stop requested, nothing processed, every registered input drained
  /\ pc = "GraceChk" /\ GraceExit /\ pc' = "Final"
  /\ UNCHANGED <<idx, phase, actual, tactic, processed, carry, lim, drained, intr, bad, finfo>> /\ UNCH_cfg /\ UNCH_ctl /\ UNCHANGED evars
InLim == pc = "LimFb" \/ (pc = "GraceChk" /\ ~GraceExit)
FbLim ==    \* hook FbLim{p}
  /\ InLim /\ lim < FbLimit /\ FbRecv
  /\ lim' = lim + 1 /\ pc' = "LimFb"
  /\ UNCHANGED <<idx, phase, tactic, processed, carry, drained, intr, bad, finfo>> /\ UNCH_cfg /\ UNCH_ctl
  /\ UNCHANGED <<inq, closed, written, outq, held, recvd, lost>>
LimStop ==  \* getLimitedFeedback returns on stop/cancel; hook LimStop / LimCtx
  /\ InLim /\ lim < FbLimit /\ Interrupted
  /\ lim' = FbLimit /\ pc' = "LimFb"
  /\ UNCHANGED <<idx, phase, actual, tactic, processed, carry, drained, intr, bad, finfo>> /\ UNCH_cfg /\ UNCH_ctl /\ UNCHANGED evars
LimDone ==  \* hook LimDone
  /\ InLim /\ (lim = FbLimit \/ (fbq = <<>> /\ ~Interrupted))
  /\ pc' = "Top"
  /\ UNCHANGED <<idx, phase, actual, tactic, processed, carry, lim, drained, intr, bad, finfo>> /\ UNCH_cfg /\ UNCH_ctl /\ UNCHANGED evars

FbFinal ==  \* waitZeroActual(): hook FbFinal
  /\ pc = "Final" /\ SumU(actual) # 0 /\ FbRecv
  /\ UNCHANGED <<pc, idx, phase, tactic, processed, carry, lim, drained, intr, bad, finfo>> /\ UNCH_cfg /\ UNCH_ctl
  /\ UNCHANGED <<inq, closed, written, outq, held, recvd, lost>>
FinalStop == \* waitZeroActual() abandons on stop/cancel: hook FinalStop / FinalCtx
  /\ pc = "Final" /\ SumU(actual) # 0 /\ Interrupted /\ pc' = "FinalOut"
  /\ UNCHANGED <<idx, phase, actual, tactic, processed, carry, lim, drained, intr, bad, finfo>> /\ UNCH_cfg /\ UNCH_ctl /\ UNCHANGED evars
Closing ==  \* hooks Err?, Closing; closes err/inputAdds/inputRmvs, completes graceful and breaker; hook Exit
  /\ (pc = "Final" /\ SumU(actual) = 0) \/ pc = "FinalOut"
  /\ pc' = "Closed"
  /\ UNCHANGED <<idx, phase, actual, tactic, processed, carry, lim, drained, intr, bad, finfo>> /\ UNCH_cfg /\ UNCH_ctl /\ UNCHANGED evars

Sched == Start \/ TopStop \/ TopAdd \/ TopRemove \/ TopFb \/ TopDefault \/ Calc \/ FbOne \/ OneStop \/ Take \/ Send \/ SendStop
         \/ PollStop \/ PollEmpty \/ PollTick \/ Drain \/ Recalc \/ RoundEnd \/ Graceful \/ FbLim \/ LimStop \/ LimDone
         \/ FbFinal \/ FinalStop \/ Closing

\* ---------------------------------------------------------------- environment
Produce(c) ==
  /\ ~closed[c] /\ Len(inq[c]) < InSlots(c) /\ written[c] < Items[c]
  /\ written' = [written EXCEPT ![c] = @ + 1] /\ inq' = [inq EXCEPT ![c] = Append(@, written[c] + 1)]
  /\ UNCHANGED svars /\ UNCH_ctl /\ UNCHANGED <<closed, outq, fbq, pendq, held, recvd, lost>>
CloseIn(c) ==
  /\ ~closed[c] /\ written[c] = Items[c] /\ (InCap[c] = 0 => inq[c] = <<>>)
  /\ closed' = [closed EXCEPT ![c] = TRUE]
  /\ UNCHANGED svars /\ UNCH_ctl /\ UNCHANGED <<inq, written, outq, fbq, pendq, held, recvd, lost>>
Recv ==
  /\ outq # <<>>
  /\ held' = [held EXCEPT ![Head(outq)[1]] = @ + 1]
  /\ recvd' = [recvd EXCEPT ![Head(outq)[2]] = @ + 1]
  /\ outq' = Tail(outq)
  /\ UNCHANGED svars /\ UNCH_ctl /\ UNCHANGED <<inq, closed, written, fbq, pendq, lost>>
Release(p) ==
  /\ held[p] > 0 /\ held' = [held EXCEPT ![p] = @ - 1]
  /\ IF Len(fbq) < FbCap THEN fbq' = Append(fbq, p) /\ UNCHANGED pendq ELSE pendq' = Append(pendq, p) /\ UNCHANGED fbq
  /\ UNCHANGED svars /\ UNCH_ctl /\ UNCHANGED <<inq, closed, written, outq, recvd, lost>>
NoControlPending == addq = <<>> /\ rmvq = <<>>
Terminating == stopReq \/ ctxDone \/ graceReq
Stop ==     /\ AllowStop /\ ~stopReq /\ NoControlPending /\ stopReq' = TRUE
            /\ UNCHANGED svars /\ UNCHANGED evars /\ UNCHANGED <<ctxDone, graceReq, addq, rmvq, addsDone, rmvsDone>>
Cancel ==   /\ AllowCancel /\ ~ctxDone /\ NoControlPending /\ ctxDone' = TRUE
            /\ UNCHANGED svars /\ UNCHANGED evars /\ UNCHANGED <<stopReq, graceReq, addq, rmvq, addsDone, rmvsDone>>
GracefulStop == /\ AllowGraceful /\ ~graceReq /\ NoControlPending /\ graceReq' = TRUE
            /\ UNCHANGED svars /\ UNCHANGED evars /\ UNCHANGED <<stopReq, ctxDone, addq, rmvq, addsDone, rmvsDone>>
AddInput(a) == /\ a \in Adds \ addsDone /\ NoControlPending /\ ~Terminating /\ pc # "Closed"
               /\ addq' = a
               /\ UNCHANGED svars /\ UNCHANGED evars /\ UNCHANGED <<stopReq, ctxDone, graceReq, rmvq, addsDone, rmvsDone>>
RemoveInput(p) == /\ p \in Rmvs \ rmvsDone /\ NoControlPending /\ ~Terminating /\ pc # "Closed"
               /\ rmvq' = <<p>>
               /\ UNCHANGED svars /\ UNCHANGED evars /\ UNCHANGED <<stopReq, ctxDone, graceReq, addq, addsDone, rmvsDone>>
Env == Recv \/ Stop \/ Cancel \/ GracefulStop \/ (\E c \in Chans : Produce(c) \/ CloseIn(c))
       \/ (\E p \in Universe : Release(p) \/ RemoveInput(p)) \/ (\E a \in Adds : AddInput(a))

Next == Sched \/ Env
Spec == Init /\ [][Next]_vars

\* ---------------------------------------------------------------- fairness
\* WF on every scheduler action; SF on the branches of selects with several ready cases (Go picks uniformly at random):
\* the stop branches at the top select, Take against the tick of an unbuffered input.  No environment fairness: C16 must
\* hold with handlers that never release, a consumer that never reads and producers that never write.
SchedFair == /\ WF_vars(Start) /\ SF_vars(TopStop) /\ WF_vars(TopAdd) /\ WF_vars(TopRemove) /\ WF_vars(TopFb) /\ WF_vars(TopDefault)
             /\ WF_vars(Calc) /\ WF_vars(FbOne) /\ WF_vars(OneStop) /\ SF_vars(Take) /\ WF_vars(Send) /\ SF_vars(SendStop)
             /\ SF_vars(PollStop) /\ WF_vars(PollEmpty) /\ WF_vars(PollTick) /\ SF_vars(Drain) /\ WF_vars(Recalc) /\ WF_vars(RoundEnd)
             /\ WF_vars(Graceful) /\ WF_vars(FbLim) /\ SF_vars(LimStop) /\ WF_vars(LimDone) /\ WF_vars(FbFinal) /\ SF_vars(FinalStop) /\ WF_vars(Closing)
StopSpec == Spec /\ SchedFair
EnvFair == /\ WF_vars(Recv) /\ \A p \in Universe : WF_vars(Release(p))
           /\ \A c \in Chans : WF_vars(Produce(c)) /\ WF_vars(CloseIn(c))
GraceSpec == Spec /\ SchedFair /\ EnvFair

\* ---------------------------------------------------------------- properties
CountOutP(p) == Len(SelectSeq(outq, LAMBDA x : x[1] = p))
CountIn(s, p) == Len(SelectSeq(s, LAMBDA x : x = p))
InFlightOut == Len(outq) + SumU(held)
C01_Capacity == InFlightOut <= H /\ SumU(actual) <= H
C01_Round == pc \in {"Poll", "Send", "RoundEnd"} => SumU(actual) + SumU(tactic) <= H
C01_Conservation == \A p \in Universe : actual[p] = CountOutP(p) + held[p] + CountIn(fbq, p) + CountIn(pendq, p)
TypeOK == /\ \A p \in Universe : actual[p] >= 0 /\ tactic[p] >= 0 /\ held[p] >= 0
          /\ Len(outq) <= OutCap /\ Len(fbq) <= FbCap
\* C02/C16: what left a channel is, in order, what was written to it: received ++ in output ++ carry ++ still queued,
\* with `lost` items (dropped by send() on stop) allowed only when a stop/cancel was requested
C02_Order == \A c \in Chans :
   LET inOut == SelectSeq(outq, LAMBDA x : x[2] = c)
       seqOut == [i \in 1..Len(inOut) |-> inOut[i][3]]
       cr == IF carry # <<>> /\ carry[2] = c THEN <<carry[3]>> ELSE <<>>
       s == seqOut \o cr \o inq[c]
   IN /\ \A i \in 1..Len(s)-1 : s[i] < s[i+1]                       \* in order, duplicate-free
      /\ (s # <<>> => s[Len(s)] <= written[c])
      /\ (lost[c] = 0 => s = [i \in 1..Len(s) |-> recvd[c] + i])    \* nothing skipped unless dropped on stop
      /\ (lost[c] > 0 => Interrupted)
\* C17: items are tagged with the priority their channel is registered under at the time of the read
C17_Tag == carry # <<>> => (chanOf[carry[1]] = carry[2] \/ pc # "Send")
\* C07 (v1): a graceful termination (no stop/cancel, no divider fault) happens only when everything registered is drained and released
C07_Graceful == (pc = "Closed" /\ ~Interrupted /\ ~bad) =>
                  /\ graceReq /\ SumU(held) = 0 /\ outq = <<>> /\ fbq = <<>> /\ pendq = <<>>
                  /\ \A i \in 1..N : closed[chanOf[prios[i]]] /\ inq[chanOf[prios[i]]] = <<>>
C15_FailSafe == bad => pc \in {"Final", "FinalOut", "Closed"}
\* C16: stop or cancel always leads to termination (checked under StopSpec = scheduler fairness only)
C16_Live == (stopReq \/ ctxDone) ~> (pc = "Closed")
\* C07 liveness: graceful stop terminates once handlers release and producers finish (GraceSpec)
C07_Live == graceReq ~> (pc = "Closed")
=============================================================================
