------------------------------ MODULE SimpleV1 ------------------------------
(* The v1 simplified discipline (priority/simple.go): Simple.main with its select and its chain of deferred calls,
   the helper goroutine of gracefulStop (the F5 repair), H handler goroutines, and the inner priority discipline
   reduced to what Simple relies on (it hands out at most H unreleased items while running, terminates on Stop, and on
   GracefulStop once its inputs are drained and everything was fed back).  The scheduling detail of the inner discipline
   is PrioV1.tla; this module is about the part PrioV1 does not contain: who waits for whom on the way down.

   main():   select { breaker | ctx | graceful -> gracefulStop() | inner err }
             then, deferred (executed in this order):  inner.Stop()  cancel()  wg.Wait()  close(feedback) close(output)
             close(err)  graceful.Complete()  breaker.Complete()
   gracefulStop():  helper goroutine { inner.GracefulStop(); close(completed) };  select { breaker -> inner.Stop() |
             ctx -> inner.Stop() | completed -> return };  <-completed
   handler:  loop { select { ctx' -> return | item := <-output } ; Handle(ctx', item) ; select { ctx' -> return | feedback <- p } }

   Variants (constants) used as regression twins: SyncGraceful = TRUE is the pinned tree (graceful branch calls
   inner.GracefulStop() synchronously: Stop/cancel are ignored while it is pending, finding F5);
   CompleteBeforeWait = TRUE completes `graceful` before wg.Wait() (a seeded change: GracefulStop returns while Handle runs). *)
EXTENDS Integers, FiniteSets, TLC

CONSTANTS H,              \* handlers
          Items,          \* items the producers will write in total
          SyncGraceful, CompleteBeforeWait

Handlers == 1..H

VARIABLES mpc,        \* main: "select", "gs_wait" (in gracefulStop's select), "gs_join" (<-completed), "sync_gs", "d_stop", "d_cancel", "d_wait", "d_close", "done"
          helper,     \* helper goroutine of gracefulStop: "none", "waiting" (inside inner.GracefulStop()), "done"
          hpc,        \* handler -> "recv", "handle", "feedback", "exit"
          inner,      \* inner discipline: "run", "exited"
          innerStop, innerGrace,      \* requests to the inner discipline
          written, closedIn,          \* producer side
          outq, fbq, inflight, handed, \* items in the output / feedback channels (counts), inner's in-flight count, items handed out so far
          stopReq, graceReq, ctxDone, \* requests to Simple
          ctxH,                       \* the handlers' context cancelled
          gracefulDone, breakerDone,  \* Simple's breakers completed => GracefulStop() / Stop() return
          errClosed
vars == <<mpc, helper, hpc, inner, innerStop, innerGrace, written, closedIn, outq, fbq, inflight, handed, stopReq, graceReq, ctxDone, ctxH, gracefulDone, breakerDone, errClosed>>

Init == /\ mpc = "select" /\ helper = "none" /\ hpc = [h \in Handlers |-> "recv"] /\ inner = "run"
        /\ innerStop = FALSE /\ innerGrace = FALSE /\ written = 0 /\ closedIn = FALSE
        /\ outq = 0 /\ fbq = 0 /\ inflight = 0 /\ handed = 0 /\ stopReq = FALSE /\ graceReq = FALSE /\ ctxDone = FALSE /\ ctxH = FALSE
        /\ gracefulDone = FALSE /\ breakerDone = FALSE /\ errClosed = FALSE

U(keep) == UNCHANGED keep

\* ---------------------------------------------------------------- inner discipline (abstraction of PrioV1)
InnerSend ==   \* hands out an item while running and a handler is vacant
  /\ inner = "run" /\ inflight < H /\ handed < written
  /\ outq' = outq + 1 /\ inflight' = inflight + 1 /\ handed' = handed + 1
  /\ U(<<mpc, helper, hpc, inner, innerStop, innerGrace, written, closedIn, fbq, stopReq, graceReq, ctxDone, ctxH, gracefulDone, breakerDone, errClosed>>)
InnerFb ==
  /\ inner = "run" /\ fbq > 0 /\ fbq' = fbq - 1 /\ inflight' = inflight - 1
  /\ U(<<mpc, helper, hpc, inner, innerStop, innerGrace, written, closedIn, outq, handed, stopReq, graceReq, ctxDone, ctxH, gracefulDone, breakerDone, errClosed>>)
InnerExit ==   \* Stop: at once (after the F3 repair); GracefulStop: inputs closed, everything handed out and fed back
  /\ inner = "run"
  /\ innerStop \/ (innerGrace /\ closedIn /\ handed = written /\ inflight = 0)
  /\ inner' = "exited"
  /\ U(<<mpc, helper, hpc, innerStop, innerGrace, written, closedIn, outq, fbq, inflight, handed, stopReq, graceReq, ctxDone, ctxH, gracefulDone, breakerDone, errClosed>>)

\* ---------------------------------------------------------------- main
MainSelect ==
  /\ mpc = "select"
  /\ \/ (stopReq \/ ctxDone) /\ mpc' = "d_stop" /\ U(<<helper, innerGrace>>)
     \/ graceReq /\ IF SyncGraceful THEN mpc' = "sync_gs" /\ innerGrace' = TRUE /\ U(<<helper>>)
                    ELSE mpc' = "gs_wait" /\ helper' = "waiting" /\ innerGrace' = TRUE
     \/ inner = "exited" /\ mpc' = "d_stop" /\ U(<<helper, innerGrace>>)      \* inner err channel closed
  /\ U(<<hpc, inner, innerStop, written, closedIn, outq, fbq, inflight, handed, stopReq, graceReq, ctxDone, ctxH, gracefulDone, breakerDone, errClosed>>)
SyncGs ==      \* pinned tree: blocked inside inner.GracefulStop(), blind to stop/cancel
  /\ mpc = "sync_gs" /\ inner = "exited" /\ mpc' = "d_stop"
  /\ U(<<helper, hpc, inner, innerStop, innerGrace, written, closedIn, outq, fbq, inflight, handed, stopReq, graceReq, ctxDone, ctxH, gracefulDone, breakerDone, errClosed>>)
HelperDone ==
  /\ helper = "waiting" /\ inner = "exited" /\ helper' = "done"
  /\ U(<<mpc, hpc, inner, innerStop, innerGrace, written, closedIn, outq, fbq, inflight, handed, stopReq, graceReq, ctxDone, ctxH, gracefulDone, breakerDone, errClosed>>)
GsWait ==      \* gracefulStop's select
  /\ mpc = "gs_wait"
  /\ \/ (stopReq \/ ctxDone) /\ innerStop' = TRUE /\ mpc' = "gs_join"
     \/ helper = "done" /\ mpc' = "d_stop" /\ U(<<innerStop>>)
  /\ U(<<helper, hpc, inner, innerGrace, written, closedIn, outq, fbq, inflight, handed, stopReq, graceReq, ctxDone, ctxH, gracefulDone, breakerDone, errClosed>>)
GsJoin ==      \* inner.Stop() returned (inner exited), then <-completed
  /\ mpc = "gs_join" /\ inner = "exited" /\ helper = "done" /\ mpc' = "d_stop"
  /\ U(<<helper, hpc, inner, innerStop, innerGrace, written, closedIn, outq, fbq, inflight, handed, stopReq, graceReq, ctxDone, ctxH, gracefulDone, breakerDone, errClosed>>)
DStop ==       \* deferred inner.Stop(): request, then wait for the inner discipline to exit
  /\ mpc = "d_stop"
  /\ IF inner = "exited" THEN mpc' = "d_cancel" /\ U(<<innerStop>>) ELSE innerStop' = TRUE /\ U(<<mpc>>)
  /\ U(<<helper, hpc, inner, innerGrace, written, closedIn, outq, fbq, inflight, handed, stopReq, graceReq, ctxDone, ctxH, gracefulDone, breakerDone, errClosed>>)
DCancel ==     \* deferred cancel()   (variant: graceful.Complete() already here)
  /\ mpc = "d_cancel" /\ ctxH' = TRUE /\ mpc' = "d_wait"
  /\ gracefulDone' = (IF CompleteBeforeWait THEN TRUE ELSE gracefulDone)
  /\ U(<<helper, hpc, inner, innerStop, innerGrace, written, closedIn, outq, fbq, inflight, handed, stopReq, graceReq, ctxDone, breakerDone, errClosed>>)
DWait ==       \* deferred wg.Wait()
  /\ mpc = "d_wait" /\ \A h \in Handlers : hpc[h] = "exit" /\ mpc' = "d_close"
  /\ U(<<helper, hpc, inner, innerStop, innerGrace, written, closedIn, outq, fbq, inflight, handed, stopReq, graceReq, ctxDone, ctxH, gracefulDone, breakerDone, errClosed>>)
DClose ==      \* closes, graceful.Complete(), breaker.Complete()
  /\ mpc = "d_close" /\ mpc' = "done" /\ errClosed' = TRUE /\ gracefulDone' = TRUE /\ breakerDone' = TRUE
  /\ U(<<helper, hpc, inner, innerStop, innerGrace, written, closedIn, outq, fbq, inflight, handed, stopReq, graceReq, ctxDone, ctxH>>)

\* ---------------------------------------------------------------- handlers
HRecv(h) ==
  /\ hpc[h] = "recv"
  /\ \/ ctxH /\ hpc' = [hpc EXCEPT ![h] = "exit"] /\ U(<<outq>>)
     \/ outq > 0 /\ outq' = outq - 1 /\ hpc' = [hpc EXCEPT ![h] = "handle"]
  /\ U(<<mpc, helper, inner, innerStop, innerGrace, written, closedIn, fbq, inflight, handed, stopReq, graceReq, ctxDone, ctxH, gracefulDone, breakerDone, errClosed>>)
HHandleEnv(h) ==    \* Handle returns because the user's work finished (environment, no fairness)
  /\ hpc[h] = "handle" /\ hpc' = [hpc EXCEPT ![h] = "feedback"]
  /\ U(<<mpc, helper, inner, innerStop, innerGrace, written, closedIn, outq, fbq, inflight, handed, stopReq, graceReq, ctxDone, ctxH, gracefulDone, breakerDone, errClosed>>)
HHandleCtx(h) ==    \* Handle honours its context: it returns once the context is cancelled
  /\ hpc[h] = "handle" /\ ctxH /\ hpc' = [hpc EXCEPT ![h] = "feedback"]
  /\ U(<<mpc, helper, inner, innerStop, innerGrace, written, closedIn, outq, fbq, inflight, handed, stopReq, graceReq, ctxDone, ctxH, gracefulDone, breakerDone, errClosed>>)
HFeedback(h) ==
  /\ hpc[h] = "feedback"
  /\ \/ ctxH /\ hpc' = [hpc EXCEPT ![h] = "exit"] /\ U(<<fbq>>)
     \/ fbq' = fbq + 1 /\ hpc' = [hpc EXCEPT ![h] = "recv"]      \* feedback channel has capacity >= H / 10, modelled as never full for H handlers
  /\ U(<<mpc, helper, inner, innerStop, innerGrace, written, closedIn, outq, inflight, handed, stopReq, graceReq, ctxDone, ctxH, gracefulDone, breakerDone, errClosed>>)

\* ---------------------------------------------------------------- environment
Write == /\ ~closedIn /\ written < Items /\ written' = written + 1
         /\ U(<<mpc, helper, hpc, inner, innerStop, innerGrace, closedIn, outq, fbq, inflight, handed, stopReq, graceReq, ctxDone, ctxH, gracefulDone, breakerDone, errClosed>>)
CloseInputs == /\ ~closedIn /\ closedIn' = TRUE
         /\ U(<<mpc, helper, hpc, inner, innerStop, innerGrace, written, outq, fbq, inflight, handed, stopReq, graceReq, ctxDone, ctxH, gracefulDone, breakerDone, errClosed>>)
Stop == /\ ~stopReq /\ stopReq' = TRUE
         /\ U(<<mpc, helper, hpc, inner, innerStop, innerGrace, written, closedIn, outq, fbq, inflight, handed, graceReq, ctxDone, ctxH, gracefulDone, breakerDone, errClosed>>)
GracefulStop == /\ ~graceReq /\ graceReq' = TRUE
         /\ U(<<mpc, helper, hpc, inner, innerStop, innerGrace, written, closedIn, outq, fbq, inflight, handed, stopReq, ctxDone, ctxH, gracefulDone, breakerDone, errClosed>>)
Cancel == /\ ~ctxDone /\ ctxDone' = TRUE
         /\ U(<<mpc, helper, hpc, inner, innerStop, innerGrace, written, closedIn, outq, fbq, inflight, handed, stopReq, graceReq, ctxH, gracefulDone, breakerDone, errClosed>>)

Sched == InnerSend \/ InnerFb \/ InnerExit \/ MainSelect \/ SyncGs \/ HelperDone \/ GsWait \/ GsJoin \/ DStop \/ DCancel \/ DWait \/ DClose
         \/ \E h \in Handlers : HRecv(h) \/ HHandleCtx(h) \/ HFeedback(h)
Env == Write \/ CloseInputs \/ Stop \/ GracefulStop \/ Cancel \/ \E h \in Handlers : HHandleEnv(h)
Next == Sched \/ Env
Spec == Init /\ [][Next]_vars
\* fairness of the library's own goroutines only (no help from the environment: handlers silent, inputs open)
Fair == /\ WF_vars(InnerSend) /\ WF_vars(InnerFb) /\ WF_vars(InnerExit) /\ WF_vars(MainSelect) /\ WF_vars(SyncGs) /\ WF_vars(HelperDone)
        /\ WF_vars(GsWait) /\ WF_vars(GsJoin) /\ WF_vars(DStop) /\ WF_vars(DCancel) /\ WF_vars(DWait) /\ WF_vars(DClose)
        /\ \A h \in Handlers : WF_vars(HRecv(h)) /\ WF_vars(HHandleCtx(h)) /\ WF_vars(HFeedback(h))
StopSpec == Spec /\ Fair

\* ---------------------------------------------------------------- properties
Running == {h \in Handlers : hpc[h] = "handle"}
TypeOK == inflight \in 0..H /\ outq \in 0..H /\ fbq \in 0..H /\ handed <= written
C01_Simple == Cardinality(Running) <= H /\ inflight <= H
\* C07 (simplified): GracefulStop() returned => no Handle call is running;  C16: the same for Stop()
C07_HandleReturned == gracefulDone => Running = {}
C16_HandleReturned == breakerDone => Running = {}
\* C19: when main is done every goroutine started by the discipline has ended
C19_AllExited == mpc = "done" => (\A h \in Handlers : hpc[h] = "exit") /\ helper \in {"none", "done"} /\ inner = "exited"
\* C16: Stop() / cancellation always complete, without any help from the environment
C16_Live == (stopReq \/ ctxDone) ~> (mpc = "done")
=============================================================================
