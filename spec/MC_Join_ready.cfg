SPECIFICATION Spec
CONSTANTS Configs <- V2ReadyQ  MaxItems = 4  Horizon = 10  Regime = "ready"
INVARIANTS NoViol TypeOK C03_Rest C10_Inside
VIEW View
CHECK_DEADLOCK FALSE
