SPECIFICATION Spec
CONSTANTS Configs <- UReadyQ  Lens <- L2  MaxSlices = 4  MaxItems = 7  Horizon = 6  Regime = "ready"
INVARIANTS NoViol TypeOK C03_Rest C10_Inside
VIEW View
CHECK_DEADLOCK FALSE
