----------------------------- MODULE MC_Limit -----------------------------
(* Bounded configurations of Limit.tla (cfg files cannot hold records: the sets are defined here). *)
EXTENDS Limit

Cfgs(Qs, Is, Cs) == {[Q |-> q, I |-> i, C |-> c] : q \in Qs, i \in Is, c \in Cs}

CfgsQuick    == Cfgs(1..3, {2, 3}, 0..2)
CfgsThorough == Cfgs(1..3, {2, 4}, 0..3)
CfgsHist     == Cfgs(1..2, {2, 3}, 0..1)
CfgsHistBig  == Cfgs(1..3, {2, 3}, 0..2)
CfgsLive     == Cfgs(1..3, {2, 3}, 0..2)
CfgsGen      == Cfgs(1..2, {2}, 0..1)
CfgsGenBig   == Cfgs(1..3, {2, 3}, 0..2)
=============================================================================
