SPECIFICATION StopSpec
CONSTANTS
  H = 2
  Items = 3
  SyncGraceful = FALSE
  CompleteBeforeWait = TRUE
INVARIANTS TypeOK C01_Simple C07_HandleReturned C16_HandleReturned C19_AllExited
PROPERTIES C16_Live
CHECK_DEADLOCK FALSE
