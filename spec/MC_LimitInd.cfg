INIT Init
NEXT Next
