SPECIFICATION MSpec
CHECK_DEADLOCK FALSE
