SPECIFICATION LiveSpec
CONSTANTS
 Configs <- CfgsThorough
 MaxItems = 6  Horizon = 10
 Urgent = TRUE  LockStep = FALSE  ReadyCons = FALSE  EagerProd = FALSE  KeepHist = FALSE
INVARIANTS NoViol C12_Closed
PROPERTIES C12_Live
CHECK_DEADLOCK FALSE
