---------------------------- MODULE LimitInd ----------------------------
(* Counter abstraction of Limit.tla for an inductive proof of C04 with Apalache: SYMBOLIC Quantity q and
   Interval iv (any positive integers), unbounded time, any producer and any consumer.

   Limit.tla checks C04 with TLC for a handful of (Q, I, C) and a horizon; here the same scheduling goroutine
   (Start / Recv+Put / EndBatch / Wake / SeeClosed, one action per step as in Limit.tla) runs over integers
   only: the channels are reduced to what C04 talks about (the number of elements written to the output, the
   clock), Recv is enabled whenever the environment pleases (avail), Put whenever the consumer pleases.

   To keep every obligation LINEAR (q and iv are unknowns; z3 does not terminate reliably on products of
   unknowns) the two products the bound needs are carried as ghost counters that are advanced by ADDITION:
        nb      number of batches started                       (Start: nb' = nb + 1)
        qb      = q  * (nb - 1)   elements of completed batches (Start: qb' = qb + q)
        ib      = iv * (nb - 1)   earliest start of the current batch (Start: ib' = ib + iv)
   C04 in linear form:   emitted <= qb + q   /\   ib <= now          (for nb >= 1)
   which is the statement "emitted <= q * nb and iv * (nb - 1) <= now", i.e. nb - 1 <= now \div iv, i.e.
        emitted <= q * (now \div iv + 1)                             (the formula of the property).
   The last step is arithmetic on naturals (monotonicity of multiplication, definition of \div) and is checked
   by TLC on a grid in MC_LimitInd (Bridge), because it is the only non-linear fact.

   The window clause of C04 (any window of length W holds at most q*(W \div iv + 2) elements) follows from the
   same two facts applied to the batches that intersect the window: batch j starts no earlier than iv after
   batch j-1 STARTED (Spacing below, also inductive), so a window of length W intersects at most W \div iv + 2
   batches. Spacing is what the mutants of the limiter break (relative pacing, oversleep compensation,
   skipped pause): each of them has a twin here that must yield a counter-example. *)
EXTENDS Integers

VARIABLES
  \* @type: Int;
  q,
  \* @type: Int;
  iv,
  \* @type: Int;
  now,
  \* @type: Str;
  pc,
  \* @type: Int;
  startedAt,
  \* @type: Int;
  k,
  \* @type: Int;
  wakeAt,
  \* @type: Int;
  emitted,
  \* @type: Int;
  nb,
  \* @type: Int;
  qb,
  \* @type: Int;
  ib,
  \* @type: Int;
  prevStart          \* ghost: start instant of the previous batch (-1: none)

Init ==
  /\ q \in Int /\ q > 0 /\ iv \in Int /\ iv > 0
  /\ now = 0 /\ pc = "Start" /\ startedAt = -1 /\ k = 0 /\ wakeAt = 0
  /\ emitted = 0 /\ nb = 0 /\ qb = 0 - q /\ ib = 0 - iv /\ prevStart = -1

Start ==
  /\ pc = "Start"
  /\ prevStart' = startedAt /\ startedAt' = now /\ k' = 0 /\ pc' = "Recv"
  /\ nb' = nb + 1 /\ qb' = qb + q /\ ib' = ib + iv
  /\ UNCHANGED <<q, iv, now, wakeAt, emitted>>

RecvPut ==    \* an element is available and the output has room: one element leaves
  /\ pc = "Recv"
  /\ emitted' = emitted + 1 /\ k' = k + 1
  /\ pc' = IF k + 1 >= q THEN "EndBatch" ELSE "Recv"
  /\ UNCHANGED <<q, iv, now, startedAt, wakeAt, nb, qb, ib, prevStart>>

SeeClosed ==
  /\ pc = "Recv" /\ pc' = "Closed"
  /\ UNCHANGED <<q, iv, now, startedAt, k, wakeAt, emitted, nb, qb, ib, prevStart>>

EndBatch ==
  /\ pc = "EndBatch"
  /\ IF iv - (now - startedAt) > 0
       THEN wakeAt' = now + (iv - (now - startedAt)) /\ pc' = "Sleep"
       ELSE wakeAt' = wakeAt /\ pc' = "Start"
  /\ UNCHANGED <<q, iv, now, startedAt, k, emitted, nb, qb, ib, prevStart>>

Wake ==
  /\ pc = "Sleep" /\ now >= wakeAt /\ pc' = "Start"
  /\ UNCHANGED <<q, iv, now, startedAt, k, wakeAt, emitted, nb, qb, ib, prevStart>>

Advance ==
  /\ \E d \in Int : d > 0 /\ now' = now + d
  /\ UNCHANGED <<q, iv, pc, startedAt, k, wakeAt, emitted, nb, qb, ib, prevStart>>

Next == Start \/ RecvPut \/ SeeClosed \/ EndBatch \/ Wake \/ Advance

\* ---------------------------------------------------------------- properties
C04_Linear == emitted <= qb + q /\ ib <= now
Spacing    == prevStart >= 0 => startedAt - prevStart >= iv

IndInv ==
  /\ q > 0 /\ iv > 0 /\ now >= 0
  /\ pc \in {"Start", "Recv", "EndBatch", "Sleep", "Closed"}
  /\ nb >= 0 /\ k >= 0 /\ k <= q /\ prevStart >= -1 /\ prevStart <= startedAt
  /\ (nb = 0 <=> startedAt = -1)
  /\ (nb = 0 => pc = "Start" /\ emitted = 0 /\ k = 0 /\ qb = 0 - q /\ ib = 0 - iv)
  /\ (nb > 0 => /\ startedAt >= 0 /\ startedAt <= now
                /\ ib <= startedAt /\ qb >= 0 /\ ib >= 0
                /\ (pc = "Start" => now - startedAt >= iv /\ emitted = qb + q)
                /\ (pc # "Start" => emitted = qb + k)
                /\ (pc = "Recv" => k < q)
                /\ (pc = "EndBatch" => k = q)
                /\ (pc = "Sleep" => k = q /\ wakeAt = startedAt + iv))
  /\ Spacing
  /\ C04_Linear

IndInit ==
  /\ q \in Int /\ iv \in Int /\ now \in Int /\ startedAt \in Int /\ k \in Int /\ wakeAt \in Int
  /\ emitted \in Int /\ nb \in Int /\ qb \in Int /\ ib \in Int /\ prevStart \in Int
  /\ pc \in {"Start", "Recv", "EndBatch", "Sleep", "Closed"}
  /\ IndInv
=========================================================================
