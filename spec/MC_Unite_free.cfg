SPECIFICATION Spec
CONSTANTS Configs <- UQ  Lens <- L2  MaxSlices = 3  MaxItems = 5  Horizon = 4  Regime = "free"
INVARIANTS NoViol TypeOK C03_Rest C03_Out C08_Frozen C08_CopyFresh
PROPERTIES C09_Action C11_Action
VIEW View
CHECK_DEADLOCK FALSE
