----------------------------- MODULE RateConvApa -----------------------------
(* Symbolic validity check of the postcondition over ALL 64-bit inputs (Apalache, --length=0). *)
EXTENDS RateConv
VARIABLES
  \* @type: Int;
  i,
  \* @type: Int;
  q,
  \* @type: Int;
  m
MaxU == 18446744073709551615
MaxI == 9223372036854775807
Init == /\ i \in Int /\ q \in Int /\ m \in Int
        /\ i > 0 /\ i <= MaxI /\ q > 0 /\ q <= MaxU /\ m >= 0 /\ m <= MaxI
Next == UNCHANGED <<i, q, m>>
\* the function of the specification (= the repaired code) satisfies the property everywhere
PostHolds == IF IsErr(i, q, m, MaxU) THEN ErrAllowed(i, q, m, MaxU) ELSE Post(i, q, m, ResI(i, q, m), ResQ(i, q, m))
\* regression twin: with the pinned branch condition the property FAILS (Apalache must find i=7,q=2,m=3 or alike)
PinnedResI == IF Branch1Pinned(i, q, m) THEN i \div q ELSE m
PinnedResQ == IF Branch1Pinned(i, q, m) THEN 1 ELSE (q * m) \div i
PinnedIsErr == ~Branch1Pinned(i, q, m) /\ (m = 0 \/ PinnedResQ > MaxU)
PinnedPostHolds == PinnedIsErr \/ Post(i, q, m, PinnedResI, PinnedResQ)
\* vacuity twin: a deliberately false claim must be refuted
Vacuity == ResQ(i, q, m) = 1
=============================================================================
