INIT Init
NEXT Next
INVARIANTS C15_contract
CHECK_DEADLOCK FALSE
