---------------------------- MODULE UniteInd ----------------------------
(* Counter abstraction of unite's process() (Unite.tla, v2/join/unite/unite.go) for an inductive proof with Apalache of the
   SIZE clauses of C03 / C09 / C11 for every JoinSize js and every sequence of input slice lengths (unbounded naturals):

     process(item): if len(item) >= JoinSize { pass(); forward(item); return }
                    if len(item)+len(join) > JoinSize { pass() }
                    join = append(join, item...)
                    if len(join) >= JoinSize { pass() }
     pass():        if len(join) == 0 { return }; send(join); resetJoin()
     timeout / close: pass()

   State: n = len(join); ghosts fold the observations over every output so far:
     okSize   every accumulated output had 1 <= len <= js, every forwarded one len >= js, none was empty      (C03)
     okMax    an accumulated output that was neither cut by the ticker nor the last one was maximal: it had js
              elements or the next input slice would not have fitted                                           (C09)
     okWhole  an input slice of at least js elements left as an output of its own AFTER everything accumulated
              before it (nothing was still buffered when it was forwarded); shorter slices are appended whole   (C11)
   An input slice is appended or forwarded as one unit in every action, which is the "never split" clause by
   construction of the abstraction (the element-level statement is checked by TLC on Unite.tla and by Mon_Join).

   Twins (lib/join.py, each must yield a counter-example): the fit test weakened to >= (non-maximal slices: C09-b),
   forward without the preceding pass (C09-d), the final "len(join) >= JoinSize" test dropped (oversized accumulations). *)
EXTENDS Integers

VARIABLES
  \* @type: Int;
  js,
  \* @type: Int;
  n,
  \* @type: Bool;
  okSize,
  \* @type: Bool;
  okMax,
  \* @type: Bool;
  okWhole

Init == js \in Int /\ js >= 1 /\ n = 0 /\ okSize = TRUE /\ okMax = TRUE /\ okWhole = TRUE

\* one input slice of m elements
Process ==
  \E m \in Int :
    /\ m >= 0
    /\ IF m >= js THEN
         \* pass() (an accumulated output of n elements if n > 0; it is followed by an own-slice output: "cut short" only
         \* by a slice that does not fit) ; forward(item)
         LET rest == 0 IN                        \* what is still buffered when the slice is forwarded: pass() came first
         /\ okSize' = (okSize /\ m >= 1)
         /\ okMax' = (okMax /\ (n > 0 => n + m > js))
         /\ okWhole' = (okWhole /\ rest = 0)
         /\ n' = rest
       ELSE IF m + n > js THEN
         \* pass(); append
         /\ okSize' = (okSize /\ n >= 1 /\ n <= js)
         /\ okMax' = (okMax /\ n + m > js)
         /\ okWhole' = okWhole
         /\ n' = (IF m >= js THEN 0 ELSE m)      \* append; a slice of m < js elements cannot reach js alone
       ELSE
         \* append; pass() when the accumulation reached JoinSize
         /\ okSize' = (okSize /\ (n + m >= js => n + m <= js /\ n + m >= 1))
         /\ okMax' = okMax
         /\ okWhole' = okWhole
         /\ n' = (IF n + m >= js THEN 0 ELSE n + m)
  /\ UNCHANGED js

\* ticker with an expired timeout, or the input closed: pass()
Flush ==
  /\ okSize' = (okSize /\ (n > 0 => n <= js))
  /\ n' = 0
  /\ UNCHANGED <<js, okMax, okWhole>>

Next == Process \/ Flush

IndInv ==
  /\ js >= 1 /\ n >= 0 /\ n < js
  /\ okSize /\ okMax /\ okWhole

IndInit == js \in Int /\ n \in Int /\ okSize \in BOOLEAN /\ okMax \in BOOLEAN /\ okWhole \in BOOLEAN /\ IndInv
=========================================================================
