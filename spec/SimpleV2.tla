------------------------------ MODULE SimpleV2 ------------------------------
(* The v2 simplified discipline (v2/priority/simple/simple.go): H handler goroutines ranging over the output of an inner
   priority discipline; after Handle returns the handler calls Release.  There is no Stop: the discipline terminates when
   all inputs are closed and emptied and everything handed out was released (C07), at which point the inner discipline closes
   its output (the handlers leave their range loops, C19) and Err().
   The inner discipline is reduced to what Simple relies on (PrioV2.tla has its scheduling): at most H unreleased items,
   output and feedback channels of capacity OutCap = max(H / 10, number of inputs) (general.DivideWithMin in New).

   handler:  for prioritized := range output { Handle(item); Release(priority) }

   Variant (constant) used as regression twin: ReleaseBeforeHandle = TRUE releases before calling Handle (more than H Handle
   calls can run; Err() can close while Handle runs). *)
EXTENDS Integers, FiniteSets, TLC

CONSTANTS H, Items, OutCap, ReleaseBeforeHandle

Handlers == 1..H

VARIABLES hpc,        \* handler -> "recv", "handle", "release", "exit"
          inner,      \* "run", "closed" (output and Err() closed)
          written, closedIn, outq, fbq, inflight, handed
vars == <<hpc, inner, written, closedIn, outq, fbq, inflight, handed>>

Init == /\ hpc = [h \in Handlers |-> "recv"] /\ inner = "run" /\ written = 0 /\ closedIn = FALSE
        /\ outq = 0 /\ fbq = 0 /\ inflight = 0 /\ handed = 0

U(keep) == UNCHANGED keep

InnerSend ==
  /\ inner = "run" /\ inflight < H /\ handed < written /\ outq < OutCap
  /\ outq' = outq + 1 /\ inflight' = inflight + 1 /\ handed' = handed + 1
  /\ U(<<hpc, inner, written, closedIn, fbq>>)
InnerFb ==
  /\ inner = "run" /\ fbq > 0 /\ fbq' = fbq - 1 /\ inflight' = inflight - 1
  /\ U(<<hpc, inner, written, closedIn, outq, handed>>)
InnerClose ==   \* C07: only when inputs are closed and emptied and every item handed out was released
  /\ inner = "run" /\ closedIn /\ handed = written /\ inflight = 0
  /\ inner' = "closed"
  /\ U(<<hpc, written, closedIn, outq, fbq, inflight, handed>>)

HRecv(h) ==
  /\ hpc[h] = "recv"
  /\ \/ outq > 0 /\ outq' = outq - 1 /\ hpc' = [hpc EXCEPT ![h] = IF ReleaseBeforeHandle THEN "release" ELSE "handle"]
     \/ outq = 0 /\ inner = "closed" /\ hpc' = [hpc EXCEPT ![h] = "exit"] /\ U(<<outq>>)
  /\ U(<<inner, written, closedIn, fbq, inflight, handed>>)
HHandle(h) ==     \* Handle returns (environment)
  /\ hpc[h] = "handle" /\ hpc' = [hpc EXCEPT ![h] = IF ReleaseBeforeHandle THEN "recv" ELSE "release"]
  /\ U(<<inner, written, closedIn, outq, fbq, inflight, handed>>)
HRelease(h) ==    \* Release = send on the feedback channel
  /\ hpc[h] = "release" /\ fbq < OutCap /\ fbq' = fbq + 1
  /\ hpc' = [hpc EXCEPT ![h] = IF ReleaseBeforeHandle THEN "handle" ELSE "recv"]
  /\ U(<<inner, written, closedIn, outq, inflight, handed>>)

Write == ~closedIn /\ written < Items /\ written' = written + 1 /\ U(<<hpc, inner, closedIn, outq, fbq, inflight, handed>>)
CloseInputs == ~closedIn /\ closedIn' = TRUE /\ U(<<hpc, inner, written, outq, fbq, inflight, handed>>)

Sched == InnerSend \/ InnerFb \/ InnerClose \/ \E h \in Handlers : HRecv(h) \/ HRelease(h)
Env == Write \/ CloseInputs \/ \E h \in Handlers : HHandle(h)
Next == Sched \/ Env
Spec == Init /\ [][Next]_vars
\* C07's liveness needs the environment's promise as well: inputs get closed and Handle returns
Fair == /\ WF_vars(InnerSend) /\ WF_vars(InnerFb) /\ WF_vars(InnerClose) /\ WF_vars(CloseInputs)
        /\ \A h \in Handlers : WF_vars(HRecv(h)) /\ WF_vars(HHandle(h)) /\ WF_vars(HRelease(h))
LiveSpec == Spec /\ Fair

Running == {h \in Handlers : hpc[h] = "handle"}
TypeOK == inflight \in 0..H /\ outq \in 0..OutCap /\ fbq \in 0..OutCap /\ handed <= written
C01_Simple == Cardinality(Running) <= H /\ Cardinality(Running) <= inflight
\* C07: Err() closed => inputs closed and emptied, nothing unreleased, no Handle running
C07_Closed == inner = "closed" => closedIn /\ handed = written /\ inflight = 0 /\ Running = {}
\* C07 / C19 liveness: once the inputs are closed Err() closes and every handler goroutine ends
C07_Live == <>(inner = "closed" /\ \A h \in Handlers : hpc[h] = "exit")
=============================================================================
