SPECIFICATION Spec
CONSTANTS Configs <- V1Q  MaxItems = 3  Horizon = 5  Regime = "free"
INVARIANTS NoViol TypeOK C03_Rest C03_Out C08_Frozen C08_CopyFresh C16_Closed
PROPERTIES C09_Action C16_StaysDown
VIEW View
CHECK_DEADLOCK FALSE
