------------------------------ MODULE Mon_Prio ------------------------------
(* Property monitor for the priority disciplines (v1 and v2, plain and simplified) over OBSERVED facts only
   (what a user of the API can see): no variable of the system specifications appears here, so a verdict
   does not depend on the code conforming to PrioV2/PrioV1 - only on the property.  Input: an ndjson stream
   of observations recorded from the REAL code (harness/prioh), many traces separated by Reset records.
     Reset{H, prios, chans, chprio, share, sat, fault, v1}
              start of a trace: chans = input channel ids, chprio = <<channel, priority>> pairs (the only priority a
              channel is ever registered under), share = real divider(all priorities, H)
     W{c,k}   item k (1,2,..) written to input channel c           C{c}  channel c closed
     R{p,c,k} item received from the output, tagged p              L{p}  release issued (v2 Release / v1 feedback write)
     Q{held}  stall point: every open input kept full, nothing released, the discipline stopped handing out items
     A{p} / QA{p,held}  C06 scenario: from "nothing in flight", only priority p is given data, nothing is released
     Starved{c}  written items of c not delivered by the virtual deadline although every received item was released
     OC / EC  Output() (v2) / Err() observed closed                EV{note} value read from Err()
     Deadline / Leak   harness-detected absence of termination / leftover goroutine
   v1 control plane:
     Stop, Cancel, Grace          the call was issued          StopRet, GraceRet   the call returned
     StopHang / CancelHang / GraceHang   no return / no termination by the virtual deadline (or a spinning goroutine)
     AddRet{c,p}  AddInput(c,p) returned       RmvRet{p,c}  RemoveInput(p) returned, c = channel registered until then
     Dead{c}      channel c was replaced by an AddInput that returned
     Taken{c}     the harness observed that the discipline took an element from channel c (len decreased / writer resumed)
     OutGrew      the user's output channel grew after Stop() had returned
   One initial state per trace (TLC checks the traces in parallel; a rejected trace is reported once, at its end). *)
EXTENDS Integers, Sequences, FiniteSets, Json, TLC
Events == ndJsonDeserialize("events.ndjson")
Starts == {j \in 1..Len(Events) : Events[j].e = "Reset"}

VARIABLES l,      \* index of the last consumed record
          t0,     \* index of this trace's Reset record
          wr, rc, \* per input channel: items written / last ordinal received
          seen,   \* unordered traces (simplified disciplines): set of <<channel, ordinal>> handed to Handle
          gap,    \* per input channel: ordinals were skipped (allowed only after a stop/cancel request)
          nr, nl, \* per tag: received / release issued
          cl,     \* closed input channels
          dead,   \* channels the discipline must not read any more (removed / replaced, call returned)
          added,  \* channels registered by an AddInput call that returned
          live,   \* channels currently registered as far as returned calls tell
          oc, ec, \* output / err closed
          stop, stopret, grace,  \* v1 control calls issued / returned
          viol    \* set of property ids violated so far
vars == <<l, t0, wr, rc, seen, gap, nr, nl, cl, dead, added, live, oc, ec, stop, stopret, grace, viol>>

Cfg == Events[t0]
SetOf(s) == {s[i] : i \in 1..Len(s)}
PriosOf(j) == SetOf(Events[j].prios)
ChansOf(j) == SetOf(Events[j].chans)
Prios == PriosOf(t0)
Chans == ChansOf(t0)
PairVal(pairs, k) == LET i == CHOOSE i \in 1..Len(pairs) : pairs[i][1] = k IN pairs[i][2]
ShareOf(p) == PairVal(Cfg.share, p)
ChPrio(c) == PairVal(Cfg.chprio, c)
SumOver(f, S) == LET RECURSIVE Acc(_) Acc(T) == IF T = {} THEN 0 ELSE LET x == CHOOSE x \in T : TRUE IN f[x] + Acc(T \ {x}) IN Acc(S)

Init == /\ t0 \in Starts /\ l = t0
        /\ wr = [c \in ChansOf(t0) |-> 0] /\ rc = [c \in ChansOf(t0) |-> 0] /\ gap = [c \in ChansOf(t0) |-> FALSE] /\ seen = {}
        /\ nr = [p \in PriosOf(t0) |-> 0] /\ nl = [p \in PriosOf(t0) |-> 0]
        /\ cl = {} /\ dead = {} /\ added = {} /\ live = SetOf(Events[t0].live) /\ oc = FALSE /\ ec = FALSE
        /\ stop = FALSE /\ stopret = FALSE /\ grace = FALSE /\ viol = {}

InFlight == SumOver(nr, Prios) - SumOver(nl, Prios)
\* an AddInput / RemoveInput call has returned in this trace: capacity, exactly-once and termination are then also C17's business
Dyn == added # {} \/ dead # {}
Also17(S) == IF Dyn /\ S # {} THEN S \cup {"C17"} ELSE S
HeldOf(e, p) == PairVal(e.held, p)
Keep == UNCHANGED <<wr, rc, seen, gap, nr, nl, cl, dead, added, live, oc, ec, stop, stopret, grace>>
\* everything written to the channels that are registered (as far as returned calls tell) has been delivered
AllDelivered == \A c \in live : rc[c] = wr[c] /\ ~gap[c]
AllClosed == live \subseteq cl
\* C05's precondition: every input has had data waiting since creation (the harness keeps them full) - over once an input is closed
Saturated == Cfg.sat /\ cl = {}

Step ==
  /\ l < Len(Events) /\ Events[l + 1].e # "Reset"
  /\ l' = l + 1 /\ UNCHANGED t0
  /\ LET e == Events[l + 1] IN
     CASE e.e = "W" -> /\ wr' = [wr EXCEPT ![e.c] = e.k]
                       /\ viol' = viol \cup (IF e.k # wr[e.c] + 1 THEN {"harness"} ELSE {})
                       /\ UNCHANGED <<rc, seen, gap, nr, nl, cl, dead, added, live, oc, ec, stop, stopret, grace>>
       [] e.e = "C" -> cl' = cl \cup {e.c} /\ UNCHANGED <<wr, rc, seen, gap, nr, nl, dead, added, live, oc, ec, stop, stopret, grace, viol>>
       [] e.e = "R" -> /\ nr' = IF e.p \in Prios THEN [nr EXCEPT ![e.p] = @ + 1] ELSE nr
                       /\ rc' = IF e.c \notin Chans THEN rc
                                ELSE IF Cfg.unordered THEN [rc EXCEPT ![e.c] = @ + 1] ELSE [rc EXCEPT ![e.c] = e.k]
                       /\ seen' = IF Cfg.unordered THEN seen \cup {<<e.c, e.k>>} ELSE seen
                       /\ gap' = IF ~Cfg.unordered /\ e.c \in Chans /\ e.k > rc[e.c] + 1 THEN [gap EXCEPT ![e.c] = TRUE] ELSE gap
                       /\ viol' = viol
                            \* wrong tag / unknown item; duplicate or reordered; not written; skipped although no stop was requested
                            \cup (IF e.c \notin Chans \/ e.p \notin Prios THEN {"C02"}
                                  ELSE IF e.p # ChPrio(e.c) THEN {"C02", "C17"}
                                  ELSE IF e.k > wr[e.c] THEN {"C02", "C16"}
                                  ELSE IF Cfg.unordered THEN (IF <<e.c, e.k>> \in seen THEN {"C02", "C16"} ELSE {})
                                  ELSE IF e.k <= rc[e.c] THEN {"C02", "C16"}
                                  ELSE IF e.k # rc[e.c] + 1 /\ ~stop THEN {"C02"} ELSE {})
                            \cup Also17(IF InFlight + 1 > Cfg.H THEN {"C01"} \cup (IF Cfg.fault THEN {"C15"} ELSE {}) ELSE {})
                            \cup (IF Saturated /\ e.p \in Prios /\ nr[e.p] + 1 - nl[e.p] > ShareOf(e.p) THEN {"C05"} ELSE {})
                            \cup (IF oc THEN {"C07"} ELSE {})
                       /\ UNCHANGED <<wr, nl, cl, dead, added, live, oc, ec, stop, stopret, grace>>
       [] e.e = "L" -> nl' = [nl EXCEPT ![e.p] = @ + 1] /\ UNCHANGED <<wr, rc, seen, gap, nr, cl, dead, added, live, oc, ec, stop, stopret, grace, viol>>
       [] e.e = "Q" -> /\ viol' = viol
                            \cup Also17(IF SumOver([p \in Prios |-> HeldOf(e, p)], Prios) > Cfg.H THEN {"C01"} ELSE {})
                            \cup (IF Saturated /\ \E p \in Prios : HeldOf(e, p) # ShareOf(p) THEN {"C05"} ELSE {})
                       /\ Keep
       [] e.e = "OC" -> /\ oc' = TRUE
                        /\ viol' = viol
                             \cup (IF InFlight # 0 THEN {IF Cfg.fault THEN "C15" ELSE "C07"} ELSE {})
                             \cup (IF ~Cfg.fault /\ (~AllClosed \/ ~AllDelivered) THEN {"C07"} ELSE {})
                             \cup (IF ~Cfg.fault /\ ~AllDelivered THEN {"C02", "C06"} ELSE {})
                        /\ UNCHANGED <<wr, rc, seen, gap, nr, nl, cl, dead, added, live, ec, stop, stopret, grace>>
       [] e.e = "EC" -> /\ ec' = TRUE
                        /\ viol' = viol \cup (IF ~Cfg.v1 /\ ~oc THEN {"C07"} ELSE {})
                                        \cup (IF Cfg.unordered /\ InFlight # 0 THEN {"C07"} ELSE {})
                        /\ UNCHANGED <<wr, rc, seen, gap, nr, nl, cl, dead, added, live, oc, stop, stopret, grace>>
       [] e.e = "EV" -> /\ viol' = viol \cup Also17(IF e.note # "nil" /\ ~Cfg.fault THEN {"C07"} ELSE {})
                                        \cup (IF Cfg.fault /\ e.note \notin {"nil", "ErrDividerBad"} THEN {"C15"} ELSE {})
                        /\ Keep
       \* no termination although everything is closed and released; what is still undelivered then is lost (C02) / never delivered (C06)
       [] e.e = "Deadline" -> viol' = viol \cup {IF Cfg.fault THEN "C15" ELSE "C07"}
                                          \cup (IF ~Cfg.fault /\ ~AllDelivered THEN {"C02", "C06"} ELSE {}) /\ Keep
       [] e.e = "RelPanic" -> viol' = viol \cup {IF Cfg.fault THEN "C15" ELSE "C07"} /\ Keep   \* terminated with an unreleased item
       [] e.e = "Starved" -> viol' = viol \cup {"C06"} /\ Keep
       [] e.e = "QA" -> \* only priority e.p had data, nothing else in flight, nothing released: it must hold all H handlers
                        /\ viol' = viol \cup (IF HeldOf(e, e.p) # Cfg.H THEN {"C06"} ELSE {}) /\ Keep
       [] e.e = "Leak" -> viol' = viol \cup {"C19"} /\ Keep
       \* end of the verdict phase of a gated run of a simplified discipline: it ended without stop, cancellation or fault, so whatever was
       \* written to its inputs - also what the producers wrote after a premature end - must have been delivered
       [] e.e = "Final" -> viol' = viol \cup (IF ec /\ ~stop /\ ~Cfg.fault /\ ~AllDelivered THEN {"C02"} ELSE {}) /\ Keep
       [] e.e = "NoErr" -> viol' = viol \cup {"C15"} /\ Keep
       [] e.e = "SentAfterBad" -> viol' = viol \cup {"C15"} /\ Keep
       \* ---- v1 control plane
       [] e.e \in {"Stop", "Cancel"} -> stop' = TRUE /\ UNCHANGED <<wr, rc, seen, gap, nr, nl, cl, dead, added, live, oc, ec, stopret, grace, viol>>
       [] e.e = "StopRet" -> stopret' = TRUE /\ UNCHANGED <<wr, rc, seen, gap, nr, nl, cl, dead, added, live, oc, ec, stop, grace, viol>>
       [] e.e = "Grace" -> grace' = TRUE /\ UNCHANGED <<wr, rc, seen, gap, nr, nl, cl, dead, added, live, oc, ec, stop, stopret, viol>>
       [] e.e = "GraceRet" -> \* GracefulStop returns only when everything registered is closed, emptied, delivered and released
                        /\ viol' = viol \cup Also17(IF ~stop /\ ~Cfg.fault /\ (~AllClosed \/ ~AllDelivered \/ InFlight # 0) THEN {"C07"} ELSE {})
                                        \* ... and what was written to a registered input and is still undelivered now never will be (C06)
                                        \cup (IF ~stop /\ ~Cfg.fault /\ ~AllDelivered THEN {"C02", "C06"} ELSE {})
                                        \* simplified disciplines: termination, however reached, implies that every Handle call has returned
                                        \cup (IF Cfg.unordered /\ InFlight # 0 THEN (IF stop THEN {"C07", "C16"} ELSE {"C07"}) ELSE {})
                                        \* elements of a channel handed over by an AddInput that returned must be delivered as well
                                        \cup (IF ~stop /\ ~Cfg.fault /\ (\E c \in live \cap added : rc[c] # wr[c] \/ gap[c]) THEN {"C17"} ELSE {})
                        /\ Keep
       [] e.e \in {"StopHang", "CancelHang", "StopRetEarly"} -> viol' = viol \cup {"C16"} /\ Keep
       \* everything closed and released, yet no termination: if something written is still undelivered it is C06's business as well
       [] e.e = "GraceHang" -> viol' = viol \cup Also17({"C07"} \cup (IF ~AllDelivered THEN {"C06"} ELSE {})) /\ Keep
       [] e.e = "OutGrew" -> viol' = viol \cup {"C16"} /\ Keep
       [] e.e = "HandleAfterStop" -> viol' = viol \cup {"C16"} /\ Keep
       [] e.e = "AddRet" -> live' = live \cup {e.c} /\ added' = added \cup {e.c} /\ UNCHANGED <<wr, rc, seen, gap, nr, nl, cl, dead, oc, ec, stop, stopret, grace, viol>>
       [] e.e = "RmvRet" -> /\ live' = live \ {e.c} /\ dead' = dead \cup {e.c}
                            /\ UNCHANGED <<wr, rc, seen, gap, nr, nl, cl, added, oc, ec, stop, stopret, grace, viol>>
       [] e.e = "Dead" -> /\ live' = live \ {e.c} /\ dead' = dead \cup {e.c}
                          /\ UNCHANGED <<wr, rc, seen, gap, nr, nl, cl, added, oc, ec, stop, stopret, grace, viol>>
       [] e.e = "Taken" -> viol' = viol \cup (IF e.c \in dead THEN {"C17"} ELSE {}) /\ Keep
       [] OTHER -> UNCHANGED <<wr, rc, seen, gap, nr, nl, cl, dead, added, live, oc, ec, stop, stopret, grace, viol>>

Next == Step
Spec == Init /\ [][Next]_vars

\* a trace is judged when it has been consumed completely: one report per rejected trace, carrying every property it violates
AtEnd == l = Len(Events) \/ Events[l + 1].e = "Reset"
M_C01 == AtEnd => "C01" \notin viol
M_C02 == AtEnd => "C02" \notin viol
M_C05 == AtEnd => "C05" \notin viol
M_C06 == AtEnd => "C06" \notin viol
M_C07 == AtEnd => "C07" \notin viol
M_C15 == AtEnd => "C15" \notin viol
M_C16 == AtEnd => "C16" \notin viol
M_C17 == AtEnd => "C17" \notin viol
M_C19 == AtEnd => "C19" \notin viol
M_Harness == AtEnd => "harness" \notin viol
=============================================================================
