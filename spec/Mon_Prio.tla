------------------------------ MODULE Mon_Prio ------------------------------
(* Property monitor for the priority disciplines over OBSERVED facts only (what a user of the API can
   see): no variable of the system specification appears here, so a verdict does not depend on the
   code conforming to PrioV2/PrioV1 - only on the property.  Input: an ndjson stream of observations
   recorded from the REAL code (harness/prioh), many traces separated by Reset records.
     Reset{H, prios, share, sat, fault}   start of a trace (share = divider(all priorities, H) of the real divider)
     W{c,k}   item k (1,2,..) written to the input registered for priority c
     C{c}     that input closed            R{p,c,k}  item received from Output(), tagged p
     L{p}     Release(p) issued            A{p} / QA{p,held}  C06 scenario: from "nothing in flight", only priority p is given data, nothing is released; stall point
     Starved{c}  written items of input c not delivered by the virtual deadline although every received item was released
     Q{held}   stall point: every open input kept full, nothing released,
                                                     the discipline has stopped handing out items
     OC / EC  Output() / Err() observed closed       EV{note} value read from Err()
     Deadline / Leak   harness-detected absence of termination / leftover goroutine
   One initial state per trace (TLC checks the traces in parallel, a violation names its trace). *)
EXTENDS Integers, Sequences, FiniteSets, Json, TLC
Events == ndJsonDeserialize("events.ndjson")
Starts == {j \in 1..Len(Events) : Events[j].e = "Reset"}

VARIABLES l,      \* index of the last consumed record
          t0,     \* index of this trace's Reset record
          wr, rc, \* per input: items written / last ordinal received
          nr, nl, \* per tag: received / release issued
          cl,     \* closed inputs
          oc, ec, \* output / err closed
          viol    \* set of property ids violated so far
vars == <<l, t0, wr, rc, nr, nl, cl, oc, ec, viol>>

Cfg == Events[t0]
PriosOf(j) == {Events[j].prios[i] : i \in 1..Len(Events[j].prios)}
Prios == PriosOf(t0)
ShareOf(p) == LET i == CHOOSE i \in 1..Len(Cfg.share) : Cfg.share[i][1] = p IN Cfg.share[i][2]
SumOver(f, S) == LET RECURSIVE Acc(_) Acc(T) == IF T = {} THEN 0 ELSE LET x == CHOOSE x \in T : TRUE IN f[x] + Acc(T \ {x}) IN Acc(S)

Init == /\ t0 \in Starts /\ l = t0
        /\ wr = [p \in PriosOf(t0) |-> 0] /\ rc = [p \in PriosOf(t0) |-> 0]
        /\ nr = [p \in PriosOf(t0) |-> 0] /\ nl = [p \in PriosOf(t0) |-> 0]
        /\ cl = {} /\ oc = FALSE /\ ec = FALSE /\ viol = {}

InFlight == SumOver(nr, Prios) - SumOver(nl, Prios)
HeldOf(e, p) == LET i == CHOOSE i \in 1..Len(e.held) : e.held[i][1] = p IN e.held[i][2]

Step ==
  /\ viol = {}                     \* a rejected trace is reported once, at its first offending record
  /\ l < Len(Events) /\ Events[l + 1].e # "Reset"
  /\ l' = l + 1 /\ UNCHANGED t0
  /\ LET e == Events[l + 1] IN
     CASE e.e = "W" -> /\ wr' = [wr EXCEPT ![e.c] = e.k]
                       /\ viol' = viol \cup (IF e.k # wr[e.c] + 1 THEN {"harness"} ELSE {})
                       /\ UNCHANGED <<rc, nr, nl, cl, oc, ec>>
       [] e.e = "C" -> cl' = cl \cup {e.c} /\ UNCHANGED <<wr, rc, nr, nl, oc, ec, viol>>
       [] e.e = "R" -> /\ nr' = [nr EXCEPT ![e.p] = @ + 1]
                       /\ rc' = IF e.c \in Prios THEN [rc EXCEPT ![e.c] = e.k] ELSE rc
                       /\ viol' = viol
                            \cup (IF e.c \notin Prios \/ e.p # e.c THEN {"C02"}                  \* wrong tag / unknown item
                                  ELSE IF e.k # rc[e.c] + 1 \/ e.k > wr[e.c] THEN {"C02"} ELSE {}) \* duplicate, loss, reorder, not written
                            \cup (IF InFlight + 1 > Cfg.H THEN {"C01"} ELSE {})
                            \cup (IF Cfg.sat /\ e.p \in Prios /\ nr[e.p] + 1 - nl[e.p] > ShareOf(e.p) THEN {"C05"} ELSE {})
                            \cup (IF oc THEN {"C07"} ELSE {})
                       /\ UNCHANGED <<wr, nl, cl, oc, ec>>
       [] e.e = "L" -> nl' = [nl EXCEPT ![e.p] = @ + 1] /\ UNCHANGED <<wr, rc, nr, cl, oc, ec, viol>>
       [] e.e = "Q" -> /\ viol' = viol
                            \cup (IF SumOver([p \in Prios |-> HeldOf(e, p)], Prios) > Cfg.H THEN {"C01"} ELSE {})
                            \cup (IF Cfg.sat /\ \E p \in Prios : HeldOf(e, p) # ShareOf(p) THEN {"C05"} ELSE {})
                       /\ UNCHANGED <<wr, rc, nr, nl, cl, oc, ec>>
       [] e.e = "OC" -> /\ oc' = TRUE
                        /\ viol' = viol
                             \cup (IF InFlight # 0 THEN {IF Cfg.fault THEN "C15" ELSE "C07"} ELSE {})
                             \cup (IF ~Cfg.fault /\ (cl # Prios \/ \E c \in Prios : rc[c] # wr[c]) THEN {"C07"} ELSE {})
                             \cup (IF ~Cfg.fault /\ \E c \in Prios : rc[c] # wr[c] THEN {"C02"} ELSE {})
                        /\ UNCHANGED <<wr, rc, nr, nl, cl, ec>>
       [] e.e = "EC" -> ec' = TRUE /\ viol' = viol \cup (IF ~oc THEN {"C07"} ELSE {}) /\ UNCHANGED <<wr, rc, nr, nl, cl, oc>>
       [] e.e = "EV" -> /\ viol' = viol \cup (IF e.note # "nil" /\ ~Cfg.fault THEN {"C07"} ELSE {})
                                        \cup (IF Cfg.fault /\ e.note # "divider produces an incorrect distribution" THEN {"C15"} ELSE {})
                        /\ UNCHANGED <<wr, rc, nr, nl, cl, oc, ec>>
       [] e.e = "Deadline" -> viol' = viol \cup {IF Cfg.fault THEN "C15" ELSE "C07"} /\ UNCHANGED <<wr, rc, nr, nl, cl, oc, ec>>
       [] e.e = "Starved" -> viol' = viol \cup {"C06"} /\ UNCHANGED <<wr, rc, nr, nl, cl, oc, ec>>
       [] e.e = "QA" -> \* only priority e.p had data, nothing else in flight, nothing released: it must hold all H handlers
                        /\ viol' = viol \cup (IF HeldOf(e, e.p) # Cfg.H THEN {"C06"} ELSE {})
                        /\ UNCHANGED <<wr, rc, nr, nl, cl, oc, ec>>
       [] e.e = "Leak" -> viol' = viol \cup {"C19"} /\ UNCHANGED <<wr, rc, nr, nl, cl, oc, ec>>
       [] e.e = "NoErr" -> viol' = viol \cup {"C15"} /\ UNCHANGED <<wr, rc, nr, nl, cl, oc, ec>>
       [] e.e = "SentAfterBad" -> viol' = viol \cup {"C15"} /\ UNCHANGED <<wr, rc, nr, nl, cl, oc, ec>>
       [] OTHER -> UNCHANGED <<wr, rc, nr, nl, cl, oc, ec, viol>>

Next == Step
Spec == Init /\ [][Next]_vars

M_C01 == "C01" \notin viol
M_C02 == "C02" \notin viol
M_C05 == "C05" \notin viol
M_C06 == "C06" \notin viol
M_C07 == "C07" \notin viol
M_C15 == "C15" \notin viol
M_C19 == "C19" \notin viol
M_Harness == "harness" \notin viol
=============================================================================
