--------------------------- MODULE Trace_SimpleV1 ---------------------------
(* Trace validation (code -> spec) for the v1 simplified discipline: the observations recorded by harness/prioh
   TestRecordSimple (writes, closes, Handle entry = R, Handle return = L, Stop / Cancel / Grace calls and their returns,
   Err() closed) must be explainable by SimpleV1.tla, whose steps of main, of the gracefulStop helper, of the inner
   discipline and the handlers' channel operations are NOT logged (silent steps, found by TLC's search).
   One initial state per trace; a trace is ACCEPTED when its `Free` marker (end of the verdict phase) can be reached.
   Acceptance is reported through the deliberately false invariant NotDone (-continue): every accepted trace "violates" it once
   (the VIEW collapses all end states of a trace); traces that never do are DRIFT (reported, never an alarm). *)
EXTENDS SimpleV1, Sequences, Json

Log == ndJsonDeserialize("trace.ndjson")
Starts == {j \in 1..Len(Log) : Log[j].e = "Reset"}
EndOf(t) == CHOOSE j \in (t + 1)..Len(Log) : Log[j].e = "Free" /\ \A k \in (t + 1)..(j - 1) : Log[k].e \notin {"Free", "Reset"}

VARIABLES l, t0, nclosed
tvars == <<vars, l, t0, nclosed>>

TInit == Init /\ t0 \in Starts /\ l = t0 /\ nclosed = 0
NChans == Len(Log[t0].chans)

HRecvItem(h) == hpc[h] = "recv" /\ outq > 0 /\ HRecv(h) /\ hpc'[h] = "handle"
HRecvExit(h) == hpc[h] = "recv" /\ ctxH /\ HRecv(h) /\ hpc'[h] = "exit"

Consume ==
  /\ l < EndOf(t0) - 1
  /\ l' = l + 1 /\ UNCHANGED t0
  /\ LET e == Log[l + 1] IN
     CASE e.e = "W" -> Write /\ UNCHANGED nclosed
       [] e.e = "C" -> /\ nclosed' = nclosed + 1
                       /\ IF nclosed + 1 = NChans THEN CloseInputs ELSE UNCHANGED vars
       [] e.e = "R" -> (\E h \in Handlers : HRecvItem(h)) /\ UNCHANGED nclosed
       [] e.e = "L" -> (\E h \in Handlers : HHandleEnv(h) \/ HHandleCtx(h)) /\ UNCHANGED nclosed
       [] e.e = "Stop" -> Stop /\ UNCHANGED nclosed
       [] e.e = "Cancel" -> Cancel /\ UNCHANGED nclosed
       [] e.e = "Grace" -> GracefulStop /\ UNCHANGED nclosed
       [] e.e \in {"StopRet", "Stop2Ret"} -> breakerDone /\ UNCHANGED <<vars, nclosed>>   \* Stop2: a second, overlapping call
       [] e.e = "GraceRet" -> gracefulDone /\ UNCHANGED <<vars, nclosed>>
       [] e.e = "EC" -> errClosed /\ UNCHANGED <<vars, nclosed>>
       [] OTHER -> UNCHANGED <<vars, nclosed>>

Silent ==
  /\ l < EndOf(t0) - 1
  /\ \/ InnerSend \/ InnerFb \/ InnerExit \/ MainSelect \/ SyncGs \/ HelperDone \/ GsWait \/ GsJoin \/ DStop \/ DCancel \/ DWait \/ DClose
     \/ \E h \in Handlers : HRecvExit(h) \/ HFeedback(h)
  /\ UNCHANGED <<l, t0, nclosed>>

TNext == Consume \/ Silent
TSpec == TInit /\ [][TNext]_tvars

Done == l = EndOf(t0) - 1
NotDone == ~Done                       \* "violated" exactly by accepted traces
TView == IF Done THEN <<t0>> ELSE <<vars, l, nclosed, t0>>
\* the invariants of SimpleV1 hold in every state of every explanation
TraceInvariants == TypeOK /\ C01_Simple /\ C07_HandleReturned /\ C16_HandleReturned /\ C19_AllExited
=============================================================================
