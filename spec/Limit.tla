------------------------------- MODULE Limit -------------------------------
(* Explicit-time specification of the v2 limit discipline, exactly as coded in v2/limit/limit.go.

     loop:      for { duration, stop := transfer(); if stop { return }; delay(duration) }     main: defer close(output)
     transfer:  startedAt := time.Now(); pass(); return time.Since(startedAt)
     pass:      Quantity times { item, opened := <-input; if !opened { return stop }; output <- item }
     delay:     time.Sleep(Interval - duration)        (a non-positive remainder does not sleep)
     output:    make(chan, 1+cap(input))

   One action per channel operation / clock read of the scheduling goroutine:
     Start (clock read), Recv, SeeClosed (+ deferred close), Put, EndBatch (clock read + Sleep call), Wake.
   Environment: Write (the producer; one blocked writer is modelled as slot cap+1 of the input FIFO),
   CloseIn, ConsumerRecv, Advance (one time unit).
   The rate (Quantity Q, Interval I in time units) and the input capacity C live in the variable cfg, which no
   action of this module changes: a model-checking run explores a set of configurations at once and the trace
   specification (Trace_Limit) sets it from the Reset record of every recorded trace.

   Regimes (constants):
     Urgent     time advances only when the discipline has no enabled step (virtual clock of testing/synctest)
     LockStep   the environment acts only when the discipline has no enabled step (harness: synctest.Wait())
     ReadyCons  the consumer's receive is urgent too ("a consumer ready to receive")
     EagerProd  the producer's write is urgent too ("everything available up-front")
     KeepHist   keep the full sequence of emission instants (tiny configurations only)
   History is kept as counters; checks that need the element being emitted are evaluated inside the action
   and set the ghost variable viol. *)
EXTENDS Integers, Sequences, FiniteSets, TLC

CONSTANTS Configs, MaxItems, Horizon, Urgent, LockStep, ReadyCons, EagerProd, KeepHist

VARIABLES cfg,                 \* [Q, I, C]
          now,
          pc, startedAt, k, item, wakeAt,     \* the scheduling goroutine
          inq, inClosed, written, closedAt,   \* input channel + producer
          outq, outClosed, recvd,             \* output channel + consumer
          emits, viol                         \* history / ghost

vars == <<cfg, now, pc, startedAt, k, item, wakeAt, inq, inClosed, written, closedAt, outq, outClosed, recvd, emits, viol>>

OutCap  == 1 + cfg.C
InSlots == cfg.C + 1            \* buffer + the element of one blocked writer
Emitted == recvd + Len(outq)    \* number of writes into the output channel so far
Exact   == Urgent /\ ReadyCons /\ EagerProd
Max(a, b) == IF a >= b THEN a ELSE b

InitWith(c) ==
  /\ cfg = c /\ now = 0
  /\ pc = "Start" /\ startedAt = -1 /\ k = 0 /\ item = 0 /\ wakeAt = 0
  /\ inq = <<>> /\ inClosed = FALSE /\ written = 0 /\ closedAt = -1
  /\ outq = <<>> /\ outClosed = FALSE /\ recvd = 0
  /\ emits = <<>> /\ viol = "none"

Init == \E c \in Configs : InitWith(c)

\* ------------------------------------------------------------------ discipline
Start ==      \* transfer: startedAt := time.Now()
  /\ pc = "Start"
  /\ startedAt' = now /\ k' = 0 /\ pc' = "Recv"
  /\ viol' = IF startedAt # -1 /\ now - startedAt < cfg.I THEN "C04_start" ELSE viol
  /\ UNCHANGED <<cfg, now, item, wakeAt, inq, inClosed, written, closedAt, outq, outClosed, recvd, emits>>

Recv ==       \* pass: item, opened := <-input  (opened)
  /\ pc = "Recv" /\ inq # <<>>
  /\ item' = Head(inq) /\ inq' = Tail(inq) /\ pc' = "Put"
  /\ UNCHANGED <<cfg, now, startedAt, k, wakeAt, inClosed, written, closedAt, outq, outClosed, recvd, emits, viol>>

SeeClosed ==  \* pass: !opened -> stop; loop returns; main: deferred close(output). No delay.
  /\ pc = "Recv" /\ inq = <<>> /\ inClosed
  /\ pc' = "Closed" /\ outClosed' = TRUE
  /\ viol' = IF Exact /\ now # Max(closedAt, (written \div cfg.Q) * cfg.I) THEN "C12_close" ELSE viol
  /\ UNCHANGED <<cfg, now, startedAt, k, item, wakeAt, inq, inClosed, written, closedAt, outq, recvd, emits>>

Put ==        \* send: output <- item   (blocks while the output is full)
  /\ pc = "Put" /\ Len(outq) < OutCap
  /\ outq' = Append(outq, item) /\ k' = k + 1
  /\ pc' = IF k + 1 >= cfg.Q THEN "EndBatch" ELSE "Recv"
  /\ emits' = IF KeepHist THEN Append(emits, now) ELSE emits
  /\ viol' = IF item # Emitted + 1 THEN "C12_order"
             ELSE IF k + 1 > cfg.Q \/ startedAt = -1 \/ now < startedAt THEN "C04_batch"
             ELSE IF Emitted + 1 > cfg.Q * (now \div cfg.I + 1) THEN "C04_cum"
             ELSE IF Exact /\ now # (Emitted \div cfg.Q) * cfg.I THEN "C12_sched"
             ELSE viol
  /\ UNCHANGED <<cfg, now, startedAt, item, wakeAt, inq, inClosed, written, closedAt, outClosed, recvd>>

EndBatch ==   \* transfer: duration := time.Since(startedAt); delay: Sleep(Interval - duration)
  /\ pc = "EndBatch"
  /\ LET rem == cfg.I - (now - startedAt) IN
       IF rem > 0 THEN wakeAt' = now + rem /\ pc' = "Sleep"
                  ELSE wakeAt' = wakeAt /\ pc' = "Start"
  /\ UNCHANGED <<cfg, now, startedAt, k, item, inq, inClosed, written, closedAt, outq, outClosed, recvd, emits, viol>>

Wake ==       \* Sleep returns (never early)
  /\ pc = "Sleep" /\ now >= wakeAt
  /\ pc' = "Start"
  /\ UNCHANGED <<cfg, now, startedAt, k, item, wakeAt, inq, inClosed, written, closedAt, outq, outClosed, recvd, emits, viol>>

Disc == Start \/ Recv \/ SeeClosed \/ Put \/ EndBatch \/ Wake

\* ------------------------------------------------------------------ environment
Quiet == LockStep => ~ENABLED Disc

Write ==
  /\ Quiet /\ ~inClosed /\ written < MaxItems /\ Len(inq) < InSlots
  /\ written' = written + 1 /\ inq' = Append(inq, written + 1)
  /\ UNCHANGED <<cfg, now, pc, startedAt, k, item, wakeAt, inClosed, closedAt, outq, outClosed, recvd, emits, viol>>

CloseIn ==    \* closing with a blocked writer would panic the producer: not an environment we model
  /\ Quiet /\ ~inClosed /\ Len(inq) <= cfg.C
  /\ inClosed' = TRUE /\ closedAt' = now
  /\ UNCHANGED <<cfg, now, pc, startedAt, k, item, wakeAt, inq, written, outq, outClosed, recvd, emits, viol>>

ConsumerRecv ==
  /\ Quiet /\ outq # <<>>
  /\ outq' = Tail(outq) /\ recvd' = recvd + 1
  /\ viol' = IF Head(outq) # recvd + 1 THEN "C12_recv" ELSE viol
  /\ UNCHANGED <<cfg, now, pc, startedAt, k, item, wakeAt, inq, inClosed, written, closedAt, outClosed, emits>>

Env == Write \/ CloseIn \/ ConsumerRecv

\* ------------------------------------------------------------------ time
Advance ==
  /\ now < Horizon \/ (pc = "Sleep" /\ now < wakeAt)      \* a sleeping discipline may always finish its sleep
  /\ Urgent => ~ENABLED Disc
  /\ ReadyCons => ~ENABLED ConsumerRecv
  /\ EagerProd => ~ENABLED Write
  /\ now' = now + 1
  /\ UNCHANGED <<cfg, pc, startedAt, k, item, wakeAt, inq, inClosed, written, closedAt, outq, outClosed, recvd, emits, viol>>

Next == Disc \/ Env \/ Advance
Spec == Init /\ [][Next]_vars
\* fairness of the discipline, of the consumer and of the clock (nothing about the producer)
LiveSpec == Spec /\ WF_vars(Disc) /\ WF_vars(ConsumerRecv) /\ WF_vars(Advance)
\* vacuity twin: without a fair consumer the liveness property must FAIL (discipline blocked on a full output)
LiveSpecNoCons == Spec /\ WF_vars(Disc) /\ WF_vars(Advance)

\* ------------------------------------------------------------------ properties
TypeOK ==
  /\ cfg \in Configs /\ now \in Nat
  /\ pc \in {"Start", "Recv", "Put", "EndBatch", "Sleep", "Closed"}
  /\ k \in 0..cfg.Q /\ written \in 0..MaxItems /\ recvd \in 0..written
  /\ Len(inq) <= InSlots /\ Len(outq) <= OutCap
  /\ inClosed \in BOOLEAN /\ outClosed \in BOOLEAN

NoViol == viol = "none"

\* C04 (a): the structure that implies the window bound
C04_Struct ==
  /\ k <= cfg.Q
  /\ pc \in {"Recv", "Put"} => k < cfg.Q /\ startedAt >= 0 /\ startedAt <= now
  /\ pc = "Sleep" => wakeAt = startedAt + cfg.I        \* next batch starts >= Interval after this one
  /\ pc = "EndBatch" => k = cfg.Q
C04_Cum == Emitted <= cfg.Q * (now \div cfg.I + 1)

\* C04 (b): the formulas themselves over the full emission history (KeepHist configurations)
C04_CumHist  == \A j \in 1..Len(emits) : j <= cfg.Q * (emits[j] \div cfg.I + 1)
C04_Pairwise == \A i \in 1..Len(emits) : \A j \in i..Len(emits) :
                   j - i + 1 <= cfg.Q * ((emits[j] - emits[i]) \div cfg.I + 2)
\* vacuity twin: must be VIOLATED (the 2*Quantity burst after a stall is reachable, the bound is tight)
C04_PairTight == \A i \in 1..Len(emits) : \A j \in i..Len(emits) :
                   j - i + 1 <= cfg.Q * ((emits[j] - emits[i]) \div cfg.I + 1)

\* C12: order / losslessness / closing
C12_Order ==
  LET base == Emitted + (IF pc = "Put" THEN 1 ELSE 0) IN
  /\ outq = [i \in 1..Len(outq) |-> recvd + i]
  /\ pc = "Put" => item = Emitted + 1
  /\ inq = [i \in 1..Len(inq) |-> base + i]
  /\ base + Len(inq) = written
C12_Closed == outClosed => inClosed /\ inq = <<>> /\ Emitted = written /\ pc = "Closed"
C12_Live == inClosed ~> (outClosed /\ recvd = written)
\* vacuity twin for the exact schedule: must be VIOLATED in the Exact regime (some element is emitted later than 0)
C12_AllAtZero == KeepHist => \A j \in 1..Len(emits) : emits[j] = 0
=============================================================================
