SPECIFICATION Spec
CONSTANTS Configs <- V2Ready  MaxItems = 5  Horizon = 12  Regime = "ready"
INVARIANTS NoViol TypeOK C03_Rest C10_Inside
VIEW View
CHECK_DEADLOCK FALSE
