---------------------------- MODULE Mon_JoinHold ----------------------------
(* Timing clause of C09 on the REAL clock, no-copy mode (harness/freeh/hold_test.go), over observed facts only:
     Reset{kind, J, T}          a new trace: JoinSize J, Timeout T (microseconds)
     S{k, len, dt, final}       the k-th slice had len elements; dt = instant it was received minus the instant just before
                                the release of slice k-1 was signalled (-1 for the first slice); final = last slice of the trace
   Rule: a short (len < J), non-final slice other than the first left no earlier than T after the previous one was released:
   dt >= T.  (In no-copy mode nothing is produced before the release and passAt is reset after it; timers never fire early;
   a slice is received no earlier than it was put - every inequality points the same way, so no slack is involved.) *)
EXTENDS Integers, Sequences, TLC, Json

Log == ndJsonDeserialize("hold.ndjson")

VARIABLES l, cfg, viol
mvars == <<l, cfg, viol>>

Init == l = 1 /\ cfg = [J |-> 1, T |-> 0, tr |-> 0] /\ viol = {}

Next ==
  /\ l <= Len(Log)
  /\ l' = l + 1
  /\ LET e == Log[l] IN
     CASE e.ev = "Reset" -> cfg' = [J |-> e.J, T |-> e.T, tr |-> e.tr] /\ UNCHANGED viol
       [] e.ev = "S"     -> /\ viol' = IF e.k > 1 /\ ~e.final /\ e.len < cfg.J /\ e.dt < cfg.T THEN viol \cup {<<cfg.tr, e.k>>} ELSE viol
                            /\ UNCHANGED cfg
       [] OTHER          -> UNCHANGED <<cfg, viol>>

Spec == Init /\ [][Next]_mvars
AtEnd == l = Len(Log) + 1
M_C09 == AtEnd => viol = {}
=============================================================================
