------------------------------ MODULE PureDiv ------------------------------
(* Validation of recorded calls of the REAL dividers (v1 FairDivider/RateDivider, v2 divider.Fair/Rate)
   against the property C14 (verdict) and against the operators of Dividers.tla (conformance).
   One state per recorded call; the log is produced by harness/pure (TestRecordDividers). *)
EXTENDS Dividers, Json, TLC
Calls == ndJsonDeserialize("div_calls.ndjson")
VARIABLE i
Init == i \in 1..Len(Calls)
Next == UNCHANGED i

ToFn(pairs) == [k \in {pairs[j][1] : j \in 1..Len(pairs)} |-> pairs[CHOOSE j \in 1..Len(pairs) : pairs[j][1] = k][2]]
C == Calls[i]
Pre == ToFn(C.pre)
V1 == ToFn(C.v1)
V2 == ToFn(C.v2)

\* ---- verdict: the property as stated, on whatever the implementation returned
PropOne(res) ==
  /\ Conserves(C.ps, C.d, Pre, res)
  /\ UntouchedElse(C.ps, Pre, res)
  /\ IF C.fn = "fair" THEN FairShape(IncOf(C.ps, Pre, res)) ELSE RateShape(C.ps, C.d, IncOf(C.ps, Pre, res))
\* v2 does nothing for a nil distribution (documented: it has no return value); v1 creates one
\* a distribution that was handed in (nil excepted) is the one that gets the dividend: "every pre-filled distribution ... add exactly the
\* dividend in total to the entries" - an empty one included
C14_v1 == ~C.v1nil /\ PropOne(V1) /\ (C.prenil \/ ToFn(C.v1in) = V1)
C14_v2 == C.prenil \/ (~C.v2nil /\ PropOne(V2))
C14_same == C.prenil \/ V1 = V2

\* ---- conformance with the specification's operators (drift when violated, not a verdict)
ConfOne(res) ==
  LET inc == IncOf(C.ps, Pre, res) IN
  /\ IF C.fn = "fair" THEN inc = FairInc(C.ps, C.d) ELSE inc \in RateOutcomes(C.ps, C.d)
  /\ DOMAIN res = (DOMAIN Pre) \cup SeqRange(C.ps)          \* every listed priority gets a key (F2 repair)
Conf_v1 == ConfOne(V1)
Conf_v2 == C.prenil \/ ConfOne(V2)
=============================================================================
