--------------------------- MODULE InnerAbs_Proof ---------------------------
(* TLAPS proof that the abstraction of the inner discipline never has more than H items in flight, for EVERY H (the model checker
   covers bounded instances only).  Checked by tlapm (Zenon / SMT / PTL back ends). *)
EXTENDS InnerAbs, TLAPS

Inv == inflight \in Int /\ inflight <= H

THEOREM Safe == ASSUME H \in Nat PROVE Spec => []Capacity
<1>1. Init => Inv
  BY DEF Init, Inv
<1>2. Inv /\ [Next]_avars => Inv'
  BY DEF Inv, Next, avars, Send, Drop, Fb, Exit, Write, Close, ReqStop, ReqGrace, Take, Release
<1>3. Inv => Capacity
  BY DEF Inv, Capacity
<1>4. QED
  BY <1>1, <1>2, <1>3, PTL DEF Spec
=============================================================================
