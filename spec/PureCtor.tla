------------------------------ MODULE PureCtor ------------------------------
(* Constructors of every discipline (v1/v2 priority and their simplified forms, v1/v2 join, unite, limit): the order of the
   option checks, the error each rejected combination yields, and the capacity of the channel the constructor makes.
   Binding B4 (code -> spec): harness/pure TestRecordCtor calls the REAL constructors on a grid of option combinations and
   records options in abstract form + outcome (error identity by errors.Is, cap(Output())); one initial state per call.
   None of C01-C20 is about constructor validation (the constructor clauses of C15 and C18 are in PureUtils), so these
   invariants are CONFORMANCE only: a mismatch is reported as drift, never as a violation. *)
EXTENDS Integers, Sequences, Json, TLC

Calls == ndJsonDeserialize("ctor_calls.ndjson")
VARIABLE i
Init == i \in 1..Len(Calls)
Next == UNCHANGED i
Spec == Init /\ [][Next]_i
C == Calls[i]

Max(a, b) == IF a > b THEN a ELSE b

\* Fair divider over nin priorities: every priority gets a unit iff h >= nin
PrioV2(c) == IF c.divnil THEN "divider" ELSE IF c.h = 0 THEN "hzero" ELSE IF c.nin = 0 THEN "input"
             ELSE IF c.h < c.nin THEN "toosmall" ELSE "ok"
PrioV1(c) == IF c.divnil THEN "divider" ELSE IF c.h = 0 THEN "hzero" ELSE IF c.fbnil THEN "feedback"
             ELSE IF c.outnil THEN "output" ELSE "ok"
SimpleV2(c) == IF c.hdlnil THEN "handle" ELSE PrioV2(c)
SimpleV1(c) == IF c.hdlnil THEN "handle" ELSE IF c.nin = 0 THEN "input" ELSE IF c.divnil THEN "divider" ELSE IF c.h = 0 THEN "hzero" ELSE "ok"

DefaultInaccuracy == 25
\* v2: interval = timeout / (100 / inaccuracy) must be non-zero;  v1: at least 10 ms
Interval(c, minimum) ==
  LET inacc == IF c.inacc = 0 THEN DefaultInaccuracy ELSE c.inacc
      d == 100 \div inacc
  IN  IF c.tns <= 0 THEN "ok" ELSE IF d = 0 THEN "inacc-big" ELSE IF c.tns \div d < minimum THEN "t-small" ELSE "ok"
Join(c, minimum) == IF c.innil THEN "input" ELSE IF c.j = 0 THEN "jzero" ELSE Interval(c, minimum)
Limit(c) == IF c.innil THEN "input" ELSE IF c.ims < 0 THEN "i-negative" ELSE IF c.ims = 0 THEN "i-zero" ELSE IF c.q = 0 THEN "q-zero" ELSE "ok"

Expected(c) == CASE c.k = "pv2" -> PrioV2(c) [] c.k = "sv2" -> SimpleV2(c) [] c.k = "pv1" -> PrioV1(c) [] c.k = "sv1" -> SimpleV1(c)
                 [] c.k \in {"jv2", "uv2"} -> Join(c, 1) [] c.k = "jv1" -> Join(c, 10000000) [] c.k = "lim" -> Limit(c)
ExpectedCap(c) == CASE c.k = "pv2" -> Max(c.h \div 10, c.nin)
                    [] c.k \in {"jv2", "uv2", "lim"} -> 1 + c.incap
                    [] c.k = "jv1" -> 1
                    [] OTHER -> c.outcap

ConfCtor_Result == C.res = Expected(C)
ConfCtor_Capacity == C.res = "ok" => C.outcap = ExpectedCap(C)
=============================================================================
