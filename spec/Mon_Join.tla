------------------------------ MODULE Mon_Join ------------------------------
(* Property monitors for C03, C08, C09, C10, C11 and the join clause of C16 over OBSERVED FACTS ONLY:
   what the harness wrote / closed / received / released / stopped, at which virtual time, len() of the channels it
   owns, identity and current contents of the slices the consumer retains.  Nothing of the system specification is
   used here; a rejection by this monitor of a trace recorded from the real code is the only thing that is a VIOLATION.

   The monitor is a deterministic fold over the concatenated log (one state per record, `Reset` starts a new trace with
   its own options).  It never blocks: every finding (first finding per property and trace) is appended to a list kept in
   TLC register 1 (-workers 1; outside the state, so the fold stays linear), `bad` counts them, and the list is written to
   mon_out.json when the log is exhausted.

   Observed notions
     accepted(x)   the record at which the element had left the input channel (len(input) dropped / the blocked writer
                   returned); its virtual time is accAt[x]
     put(k)        the record at which the k-th slice had appeared in the output channel (received + len(Output()) grew);
                   "delivered" in C09/C10 is this instant - the consumer may pick the slice up later
     ready         C10 is stated for "a consumer ready to receive": an element is exempt when, at some instant not before
                   its acceptance at which the clock moved on, a slice was waiting in the output or a no-copy slice was
                   not yet released
*)
EXTENDS Integers, Sequences, FiniteSets, TLC, Json

Log == ndJsonDeserialize("trace.ndjson")
ASSUME TLCSet(1, <<>>)

VARIABLES l, m, bad
mvars == <<l, m, bad>>

Max(a, b) == IF a > b THEN a ELSE b
Min(a, b) == IF a < b THEN a ELSE b
LastOf(s) == s[Len(s)]
Consec(s) == \A i \in 1..Len(s) : s[i] = s[1] + i - 1
Rep(x, n) == [i \in 1..Max(n, 0) |-> x]

Fresh(c, tr) ==
  [c |-> c, tr |-> tr, nW |-> 0, itemEnd |-> <<>>, itemLen |-> <<>>, accAt |-> <<>>, inClosed |-> FALSE,
   haltAt |-> -1, stopAsked |-> FALSE, nRecv |-> 0, lastId |-> 0, put |-> <<>>, nRel |-> 0, exp |-> <<>>, mems |-> {},
   prev |-> [short |-> FALSE, dt |-> 0, idx |-> 0], notReadyAt |-> -1, lastNow |-> 0, lastOutlen |-> 0,
   fl |-> {}]                      \* properties already reported for this trace (first finding per property and trace)

NoCfg == [kind |-> "join", J |-> 1, T |-> 0, Div |-> 1, nocopy |-> FALSE]

Timed(s) == s.c.T > 0
Bound(s) == s.c.T + (s.c.T \div s.c.Div)
IsUnite(s) == s.c.kind = "unite"
Halted(s) == s.haltAt >= 0

\* length of the first non-empty input slice that starts right after element b, among the first w items written (0: none)
NextLen(s, b, w) ==
  LET S == {i \in 1..Min(w, Len(s.itemEnd)) : s.itemLen[i] > 0 /\ s.itemEnd[i] - s.itemLen[i] = b}
  IN IF S = {} THEN 0 ELSE s.itemLen[CHOOSE i \in S : TRUE]

PutOf(s, k, e) == IF k <= Len(s.put) THEN s.put[k] ELSE [at |-> e.now, w |-> Len(s.itemEnd), nr |-> s.notReadyAt]

Maximal(s, e, k) ==
  \/ Len(e.elems) >= s.c.J
  \/ /\ IsUnite(s) /\ e.elems # <<>>
     /\ LET nx == NextLen(s, LastOf(e.elems), PutOf(s, k, e).w) IN nx > 0 /\ Len(e.elems) + nx > s.c.J

\* ------------------------------------------------------------------ findings of one record (s = state BEFORE the record)
F(cond, prop, msg) == IF cond THEN <<[prop |-> prop, msg |-> msg]>> ELSE <<>>

RecvFindings(s, e) ==
  LET k == s.nRecv + 1
      n == Len(e.elems)
      p == PutOf(s, k, e)
      a == IF n = 0 THEN 0 ELSE e.elems[1]
      b == IF n = 0 THEN 0 ELSE LastOf(e.elems)
      Ends == {s.itemEnd[i] : i \in 1..Len(s.itemEnd)} \cup {0}
      whole == \E i \in 1..Len(s.itemEnd) : s.itemLen[i] = n /\ s.itemEnd[i] = b /\ s.itemLen[i] >= s.c.J
  IN
  \* ---- C03
     F(n = 0, "C03", "empty output slice")
  \o F(n = 0 /\ IsUnite(s), "C11", "an empty input slice produced an (empty) output slice")
  \o F(n > 0 /\ ~Halted(s) /\ (~Consec(e.elems) \/ a # s.lastId + 1), "C03", "output does not continue the written sequence (loss, duplication or reordering)")
  \o F(n > 0 /\ b > s.nW, "C03", "output contains an element that was never written")
  \o F(~IsUnite(s) /\ n > s.c.J, "C03", "join slice longer than JoinSize")
  \o F(IsUnite(s) /\ n > s.c.J /\ ~whole, "C03", "unite slice exceeds JoinSize without being exactly one input slice of at least JoinSize")
  \* ---- C16 (v1, after Stop/cancel): in-order duplicate-free subsequence
  \o F(n > 0 /\ Halted(s) /\ (a <= s.lastId \/ \E i \in 1..(n - 1) : e.elems[i + 1] <= e.elems[i]), "C16", "delivered is not an in-order duplicate-free subsequence of written")
  \* ---- C11
  \o F(IsUnite(s) /\ n > 0 /\ Consec(e.elems) /\ ((a - 1) \notin Ends \/ b \notin Ends), "C11", "an input slice is split across output slices")
  \o F(IsUnite(s) /\ n > 0 /\ Consec(e.elems) /\
       (\E i \in 1..Len(s.itemEnd) : s.itemLen[i] >= s.c.J /\ s.itemEnd[i] <= b /\ s.itemEnd[i] - s.itemLen[i] + 1 >= a /\ s.itemLen[i] # n),
       "C11", "an input slice of at least JoinSize is not delivered as an output slice of its own")
  \o F(IsUnite(s) /\ n > 0 /\ ~Halted(s) /\ a # s.lastId + 1 /\
       (\E i \in 1..Len(s.itemEnd) : s.itemLen[i] >= s.c.J /\ s.itemEnd[i] <= b /\ s.itemEnd[i] - s.itemLen[i] + 1 >= a),
       "C11", "an input slice of at least JoinSize is not delivered after everything accumulated before it")
  \* ---- C08 (copy mode): no memory shared with an earlier output
  \o F(~s.c.nocopy /\ e.rmem # 0 /\ e.rmem \in s.mems, "C08", "copy-mode output shares memory with an earlier output")
  \* ---- C09: the PREVIOUS slice is now known not to be the final one
  \o F(s.prev.short /\ ~(Timed(s) /\ s.prev.dt >= s.c.T), "C09", "non-maximal non-final slice delivered earlier than Timeout after the previous delivery")
  \* ---- C10: age at delivery of every element that never met an unready consumer
  \o F(Timed(s) /\ (~Halted(s) \/ p.at < s.haltAt) /\
       (\E i \in 1..n : e.elems[i] \in 1..Len(s.accAt) /\ s.accAt[e.elems[i]] > p.nr /\ p.at - s.accAt[e.elems[i]] > Bound(s)),
       "C10", "element delivered later than Timeout*(1+1/Div) after it was accepted, consumer ready")

HeldFindings(s, e) ==
  F(\E i \in 1..Len(e.held) : e.held[i].k \in 1..Len(s.exp) /\ e.held[i].elems # s.exp[e.held[i].k].elems,
    "C08", "retained slice modified by the discipline while the consumer owns it")
  \o F(\E i \in 1..Len(e.held) : e.held[i].k \in 1..Len(s.exp) /\ e.held[i].tail # s.exp[e.held[i].k].tail,
    "C08", "backing array of a retained slice (beyond len) modified while the consumer owns it")

\* ------------------------------------------------------------------ state update
EvUpd(s, e) ==
  CASE e.ev = "Write" -> [s EXCEPT !.nW = @ + e.n, !.itemEnd = Append(@, s.nW + e.n), !.itemLen = Append(@, e.n)]
    [] e.ev = "Close" -> [s EXCEPT !.inClosed = TRUE]
    [] e.ev = "Recv" ->
         LET k == s.nRecv + 1
             p == PutOf(s, k, e)
             pp == IF k = 1 THEN 0 ELSE PutOf(s, k - 1, e).at
         IN [s EXCEPT !.nRecv = k,
                      !.lastId = IF e.elems = <<>> THEN @ ELSE Max(@, LastOf(e.elems)),
                      !.exp = Append(@, [elems |-> e.elems, tail |-> e.tail]),
                      !.mems = @ \cup (IF e.rmem = 0 THEN {} ELSE {e.rmem}),
                      !.prev = [short |-> ~Maximal(s, e, k), dt |-> p.at - pp, idx |-> l + 1]]
    [] e.ev = "Scribble" -> IF e.x \in 1..Len(s.exp) THEN [s EXCEPT !.exp[e.x].elems = e.elems, !.exp[e.x].tail = e.tail] ELSE s
    [] e.ev = "Release" -> IF e.ok THEN [s EXCEPT !.nRel = @ + 1] ELSE s
    [] e.ev = "Adv" -> IF s.lastOutlen > 0 \/ (s.c.nocopy /\ s.nRecv > s.nRel) THEN [s EXCEPT !.notReadyAt = s.lastNow] ELSE s
    [] e.ev = "Stop" -> [s EXCEPT !.haltAt = IF @ < 0 THEN e.now ELSE @, !.stopAsked = TRUE]
    [] e.ev = "Cancel" -> [s EXCEPT !.haltAt = IF @ < 0 THEN e.now ELSE @]
    [] OTHER -> s

\* observations common to every record: acceptances and puts since the previous record
ObsUpd(s, e) ==
  LET nAccI == Max(0, Min(Len(s.itemEnd), Len(s.itemEnd) - e.inlen))
      nAccE == IF nAccI = 0 THEN 0 ELSE s.itemEnd[nAccI]
      nPut == s.nRecv + e.outlen
  IN [s EXCEPT !.accAt = @ \o Rep(e.now, nAccE - Len(@)),
               !.put = @ \o Rep([at |-> e.now, w |-> Len(s.itemEnd), nr |-> s.notReadyAt], nPut - Len(@)),
               !.lastNow = e.now, !.lastOutlen = e.outlen]

EvFindings(s, e) ==
  CASE e.ev = "Recv" -> RecvFindings(s, e)
    [] e.ev = "Deadline" -> F(s.stopAsked /\ ~e.stopret, "C16", "Stop() has not returned although nothing but the clock was needed")
    [] e.ev = "RecvNone" -> F(Halted(s), "C16", "output is not closed after Stop returned / cancellation took effect")
    [] e.ev = "RecvClosed" -> F(~Halted(s) /\ s.lastId # s.nW, "C03", "output closed but written elements were never delivered (lost tail)")
                           \o F(~Halted(s) /\ IsUnite(s) /\ s.lastId # s.nW, "C11", "a non-empty input slice appears in no output slice (output closed without it)")
    [] e.ev = "GiveUp" -> F(~Halted(s) /\ s.lastId # s.nW, "C03", "input closed and output drained, yet written elements are never delivered")
    [] OTHER -> <<>>

\* s2 = state AFTER the record
PostFindings(s2, e) ==
     F(s2.c.nocopy /\ Len(s2.put) > s2.nRel + 1, "C08", "further output produced before the no-copy slice was released")
  \o F(Timed(s2) /\ ~Halted(s2) /\ e.outlen = 0 /\
       (\E x \in Max(1, s2.lastId + 1)..Len(s2.accAt) : s2.accAt[x] > s2.notReadyAt /\ e.now - s2.accAt[x] > Bound(s2)),
       "C10", "element still inside the discipline later than Timeout*(1+1/Div) after it was accepted, consumer ready")

\* first finding per property and trace: the findings of this record that concern a property not yet reported for the trace
Adds(s, fs, idx) ==
  LET pick(p) == LET S == {i \in 1..Len(fs) : fs[i].prop = p}
                 IN IF p \in s.fl \/ S = {} THEN <<>>
                    ELSE <<[prop |-> p, tr |-> s.tr, idx |-> idx, msg |-> fs[CHOOSE i \in S : \A j \in S : i <= j].msg]>>
  IN pick("C03") \o pick("C08") \o pick("C09") \o pick("C10") \o pick("C11") \o pick("C16")

\* ------------------------------------------------------------------ the fold
MInit == l = 0 /\ m = Fresh(NoCfg, 0) /\ bad = 0

MStep ==
  /\ l < Len(Log)
  /\ LET e == Log[l + 1] IN
     IF e.ev = "Reset"
     THEN /\ m' = ObsUpd(Fresh(e.c, e.tr), e) /\ bad' = bad
     ELSE LET s1 == EvUpd(m, e)
              s2 == ObsUpd(s1, e)
              fs == EvFindings(m, e) \o HeldFindings(s1, e) \o PostFindings(s2, e)
          IN /\ m' = [s2 EXCEPT !.fl = @ \cup {fs[i].prop : i \in 1..Len(fs)}]
             /\ LET new == Adds(m, fs, l + 1) IN
                IF new = <<>> THEN bad' = bad ELSE TLCSet(1, TLCGet(1) \o new) /\ bad' = bad + Len(new)
  /\ l' = l + 1

MFinish ==
  /\ l = Len(Log)
  /\ JsonSerialize("mon_out.json", [events |-> Len(Log), bad |-> TLCGet(1)])
  /\ l' = l + 1 /\ UNCHANGED <<m, bad>>

MNext == MStep \/ MFinish
MSpec == MInit /\ [][MNext]_mvars

\* the properties as invariants (used by the self-test; the verdict run collects findings instead of stopping)
NoFinding == bad = 0
=============================================================================
