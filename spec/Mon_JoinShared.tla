--------------------------- MODULE Mon_JoinShared ---------------------------
(* C10 for several disciplines fed from ONE input channel, over OBSERVED FACTS ONLY (harness/joinh/shared_test.go):
     Reset{kind, T, Div, n}   a new trace: n disciplines of one kind with Timeout T units and divider Div on one channel,
                              every consumer receiving (and releasing) at once
     W{x}                     x elements written so far
     Empty{x}                 the channel was seen empty: all x elements written have been accepted by some discipline
     End{x}                   x elements have appeared on the outputs, observed at End.now
   Rule: nothing is written after Empty, and End.now - Empty.now >= T + T div Div + 1  =>  End.x = Empty.x
   (an accepted element leaves within Timeout*(1+1/Div) when the consumer is ready - whatever the other receivers of the
   channel do).  One state per record; viol collects the traces that break the rule; the invariant is evaluated at the end. *)
EXTENDS Integers, Sequences, TLC, Json

Log == ndJsonDeserialize("shared.ndjson")

VARIABLES l, cfg, emptyAt, emptyX, lateW, viol
mvars == <<l, cfg, emptyAt, emptyX, lateW, viol>>

Init == l = 1 /\ cfg = [T |-> 0, Div |-> 1, tr |-> 0] /\ emptyAt = -1 /\ emptyX = 0 /\ lateW = FALSE /\ viol = {}

Next ==
  /\ l <= Len(Log)
  /\ l' = l + 1
  /\ LET e == Log[l] IN
     CASE e.ev = "Reset" -> cfg' = [T |-> e.T, Div |-> e.Div, tr |-> e.tr] /\ emptyAt' = -1 /\ emptyX' = 0 /\ lateW' = FALSE /\ UNCHANGED viol
       [] e.ev = "W"     -> lateW' = (lateW \/ emptyAt >= 0) /\ UNCHANGED <<cfg, emptyAt, emptyX, viol>>
       [] e.ev = "Empty" -> emptyAt' = e.now /\ emptyX' = e.x /\ UNCHANGED <<cfg, lateW, viol>>
       [] e.ev = "End"   -> /\ viol' = IF /\ emptyAt >= 0 /\ ~lateW /\ cfg.T > 0
                                         /\ e.now - emptyAt >= cfg.T + (cfg.T \div cfg.Div) + 1
                                         /\ e.x # emptyX
                                      THEN viol \cup {cfg.tr} ELSE viol
                            /\ UNCHANGED <<cfg, emptyAt, emptyX, lateW>>
       [] OTHER          -> UNCHANGED <<cfg, emptyAt, emptyX, lateW, viol>>

Spec == Init /\ [][Next]_mvars
AtEnd == l = Len(Log) + 1
M_C10 == AtEnd => viol = {}
\* the run must have consumed the whole log (checked by the driver from the number of states)
=============================================================================
