SPECIFICATION Spec
CONSTANTS
 Configs <- CfgsQuick
 MaxItems = 7  Horizon = 4
 Urgent = TRUE  LockStep = FALSE  ReadyCons = TRUE  EagerProd = TRUE  KeepHist = TRUE
INVARIANTS C12_AllAtZero
CHECK_DEADLOCK FALSE
