------------------------------- MODULE PrioV2 -------------------------------
(* The v2 priority discipline (v2/priority/priority.go) as one sequential scheduling process plus its
   environment.  Grain of atomicity = the code's: one action per channel operation or per pure
   computation between two channel operations, and every scheduler action is exactly one event of the
   verification hooks (verifAt, build tag "verif"), named in the comment of the action.

   Channels follow Go semantics: buffered FIFO with capacity; a sender blocked on a full channel is
   queued (pendq) and its value enters the buffer atomically with the next receive; an unbuffered
   input (InCap[p] = 0) is a rendezvous: inq[p] holds the value of the one parked writer.

   The divider is a table (DivTbl) generated from the REAL divider of the tree under test for every
   order-preserving sub-list of the configured priorities and every dividend 0..H, so model and code can
   never disagree about rounding.  A fault budget lets TLC corrupt the result of any one divider call
   (over- or under-allocation), which is how the fail-safe part of C15 is explored. *)
EXTENDS Integers, Sequences, FiniteSets, TLC

CONSTANTS PrioSeq,      \* configured priorities, highest first
          H,            \* HandlersQuantity
          DivTbl,       \* [<<sub-list, dividend>> -> increments aligned with the sub-list]
          InCap,        \* [priority -> capacity of its input channel], 0 = unbuffered
          Items,        \* [priority -> number of items the producer will write]; ignored when Saturated
          OutCap, FbCap,\* capacities of output / feedback (constructor: max(H \div 10, n))
          FbLimit,      \* feedbackLimit (constructor: max(H \div 10, n))
          Saturated,    \* TRUE: infinite anonymous supply on every input (C05)
          FaultBudget,  \* number of divider calls TLC may corrupt (0 or 1)
          NoClose       \* inputs the environment keeps open for ever (an open idle input must not block the others)

Prios == {PrioSeq[i] : i \in 1..Len(PrioSeq)}
N == Len(PrioSeq)
Zero == [p \in Prios |-> 0]
Sum(f) == LET F[i \in 0..N] == IF i = 0 THEN 0 ELSE F[i-1] + f[PrioSeq[i]] IN F[N]
SumSeq(s) == LET F[i \in 0..Len(s)] == IF i = 0 THEN 0 ELSE F[i-1] + s[i] IN F[Len(s)]
Filter(P(_)) == SelectSeq(PrioSeq, P)
InSlots(p) == IF InCap[p] = 0 THEN 1 ELSE InCap[p]

\* ---------------------------------------------------------------- divider (table of the real one)
DivInc(ps, d) == IF ps = <<>> THEN <<>> ELSE DivTbl[<<ps, d>>]
\* result of divider(ps, d, zero distribution) possibly corrupted by fault f \in {"none","over","under"}
Faulty(inc, f) ==
  IF inc = <<>> \/ f = "none" THEN inc
  ELSE IF f = "over" THEN [inc EXCEPT ![1] = @ + 1]
  ELSE LET pos == {i \in 1..Len(inc) : inc[i] > 0} IN
       IF pos = {} THEN inc ELSE [inc EXCEPT ![CHOOSE i \in pos : \A j \in pos : i <= j] = @ - 1]
AsDist(ps, inc) == [p \in Prios |-> IF \E i \in 1..Len(ps) : ps[i] = p
                                   THEN inc[CHOOSE i \in 1..Len(ps) : ps[i] = p] ELSE 0]
\* safeDivide on a zeroed distribution: accepted iff the added total is 0 or equals the dividend
Accepted(inc, d) == SumSeq(inc) = 0 \/ SumSeq(inc) = d
Filled(ps, t) == \A i \in 1..Len(ps) : t[ps[i]] # 0
Strategic == AsDist(PrioSeq, DivInc(PrioSeq, H))

VARIABLES pc, idx, phase, actual, tactic, processed, carry, lim, drained, intr, bad, finfo,
          inq, closed, written, outq, fbq, pendq, held, recvd

svars == <<pc, idx, phase, actual, tactic, processed, carry, lim, drained, intr, bad, finfo>>
evars == <<inq, closed, written, outq, fbq, pendq, held, recvd>>
vars == <<svars, evars>>

Init ==
  /\ pc = "Start" /\ idx = 1 /\ phase = 1
  /\ actual = Zero /\ tactic = Zero /\ processed = FALSE /\ carry = <<>> /\ lim = 0
  /\ drained = [p \in Prios |-> FALSE] /\ intr = FALSE /\ bad = FALSE /\ finfo = <<>>
  /\ inq = [p \in Prios |-> <<>>] /\ closed = [p \in Prios |-> FALSE] /\ written = Zero
  /\ outq = <<>> /\ fbq = <<>> /\ pendq = <<>> /\ held = Zero /\ recvd = Zero

\* a receive from the feedback channel: head of the buffer; a parked sender's value enters the buffer
FbRecv == /\ fbq # <<>>
          /\ IF pendq # <<>> THEN fbq' = Append(Tail(fbq), Head(pendq)) /\ pendq' = Tail(pendq)
             ELSE fbq' = Tail(fbq) /\ UNCHANGED pendq
          /\ actual' = [actual EXCEPT ![Head(fbq)] = @ - 1]

\* index of the next priority (>= idx) that prioritize() will actually poll; 0 if none
NextPollable == LET c == {i \in idx..N : ~drained[PrioSeq[i]] /\ tactic[PrioSeq[i]] # 0}
                IN IF c = {} THEN 0 ELSE CHOOSE i \in c : \A j \in c : i <= j

FaultChoices == IF FaultBudget > 0 /\ finfo = <<>> THEN {"none", "over", "under"} ELSE {"none"}

\* ---------------------------------------------------------------- scheduler
Start ==    \* hook Start: first statement of main()
  /\ pc = "Start" /\ pc' = "Calc"
  /\ UNCHANGED <<idx, phase, actual, tactic, processed, carry, lim, drained, intr, bad, finfo>> /\ UNCHANGED evars

Calc ==     \* calcTactic(); hook Calc{proceed}  (hook Bad when the divider result is rejected)
  /\ pc = "Calc"
  /\ LET vac == H - Sum(actual) IN
     IF vac = 0 THEN pc' = "WaitFb" /\ UNCHANGED <<tactic, bad, finfo>>
     ELSE IF (\A p \in Prios : actual[p] <= Strategic[p]) /\ Sum(Strategic) - Sum(actual) = vac
          THEN /\ tactic' = [p \in Prios |-> Strategic[p] - actual[p]]
               /\ pc' = "Poll" /\ UNCHANGED <<bad, finfo>>
          ELSE LET unc == Filter(LAMBDA p : actual[p] < Strategic[p]) IN
               \E f \in FaultChoices :
                 LET inc == Faulty(DivInc(unc, vac), f) IN
                 /\ finfo' = IF f = "none" \/ inc = DivInc(unc, vac) THEN finfo ELSE <<f, 1>>
                 /\ tactic' = AsDist(unc, inc)
                 /\ IF Accepted(inc, vac)
                    THEN pc' = (IF Filled(unc, AsDist(unc, inc)) THEN "Poll" ELSE "WaitFb") /\ UNCHANGED bad
                    ELSE pc' = "Final" /\ bad' = TRUE
  /\ idx' = 1 /\ phase' = 1
  /\ UNCHANGED <<actual, processed, carry, lim, drained, intr>> /\ UNCHANGED evars

FbOne ==    \* getOneFeedback(); hook FbOne
  /\ pc = "WaitFb" /\ FbRecv
  /\ pc' = "Calc"
  /\ UNCHANGED <<idx, phase, tactic, processed, carry, lim, drained, intr, bad, finfo, inq, closed, written, outq, held, recvd>>

Take ==     \* io/iou: an item is read from the input; hook SendStart{p}
  /\ pc = "Poll" /\ NextPollable # 0
  /\ LET p == PrioSeq[NextPollable] IN
       /\ IF Saturated THEN carry' = <<p, 0>> /\ UNCHANGED inq      \* data is always waiting
          ELSE /\ inq[p] # <<>>
               /\ carry' = <<p, Head(inq[p])>> /\ inq' = [inq EXCEPT ![p] = Tail(@)]
       /\ idx' = NextPollable /\ pc' = "Send" /\ intr' = FALSE
  /\ UNCHANGED <<phase, actual, tactic, processed, lim, drained, bad, finfo, closed, written, outq, fbq, pendq, held, recvd>>

Send ==     \* send(): the write to the output channel succeeded; hook Send{p}
  /\ pc = "Send" /\ Len(outq) < OutCap
  /\ outq' = Append(outq, carry)
  /\ tactic' = [tactic EXCEPT ![carry[1]] = @ - 1]
  /\ actual' = [actual EXCEPT ![carry[1]] = @ + 1]
  /\ carry' = <<>> /\ processed' = TRUE /\ pc' = "Poll"
  /\ UNCHANGED <<idx, phase, lim, drained, intr, bad, finfo, inq, closed, written, fbq, pendq, held, recvd>>

PollEmpty ==  \* io: `default` of the select on a buffered input; hook PollEmpty{p}
  /\ pc = "Poll" /\ NextPollable # 0
  /\ ~Saturated
  /\ LET p == PrioSeq[NextPollable] IN InCap[p] # 0 /\ inq[p] = <<>> /\ ~closed[p]
  /\ idx' = NextPollable + 1
  /\ UNCHANGED <<pc, phase, actual, tactic, processed, carry, lim, drained, intr, bad, finfo>> /\ UNCHANGED evars

PollTick ==   \* iou: the 1ns interrupter fired (Go may pick it even when a writer is ready); hook PollTick{p, interrupt}
  /\ pc = "Poll" /\ NextPollable # 0
  /\ ~Saturated
  /\ LET p == PrioSeq[NextPollable] IN InCap[p] = 0          \* also when the channel is closed: select picks any ready case
  /\ IF intr THEN idx' = NextPollable + 1 /\ intr' = FALSE
     ELSE idx' = NextPollable /\ intr' = TRUE
  /\ UNCHANGED <<pc, phase, actual, tactic, processed, carry, lim, drained, bad, finfo>> /\ UNCHANGED evars

Drain ==    \* io/iou: the input is closed and empty; hook Drained{p}
  /\ pc = "Poll" /\ NextPollable # 0
  /\ LET p == PrioSeq[NextPollable] IN
       /\ ~Saturated /\ inq[p] = <<>> /\ closed[p]
       /\ drained' = [drained EXCEPT ![p] = TRUE]
  /\ idx' = NextPollable + 1 /\ intr' = FALSE
  /\ UNCHANGED <<pc, phase, actual, tactic, processed, carry, lim, bad, finfo>> /\ UNCHANGED evars

Recalc ==   \* recalcTactic(): two divider calls; hook Recalc{proceed}  (hook Bad on a rejected result)
  /\ pc = "Poll" /\ phase = 1 /\ NextPollable = 0
  /\ LET rem == Sum(tactic)
         us1 == Filter(LAMBDA p : tactic[p] = 0)
     IN \E f1 \in FaultChoices :
        LET inc1 == Faulty(DivInc(us1, H), f1)
            fi1 == IF f1 = "none" \/ inc1 = DivInc(us1, H) THEN finfo ELSE <<f1, 1>>
        IN IF ~Accepted(inc1, H)
           THEN /\ pc' = "Final" /\ bad' = TRUE /\ finfo' = fi1 /\ tactic' = AsDist(us1, inc1) /\ UNCHANGED <<idx, phase>>
           ELSE LET t1 == AsDist(us1, inc1)
                    us2 == Filter(LAMBDA p : actual[p] < t1[p])
                IN \E f2 \in (IF FaultBudget > 0 /\ fi1 = <<>> THEN {"none", "over", "under"} ELSE {"none"}) :
                   LET inc2 == Faulty(DivInc(us2, rem), f2)
                       t2 == AsDist(us2, inc2)
                   IN /\ finfo' = IF f2 = "none" \/ inc2 = DivInc(us2, rem) THEN fi1 ELSE <<f2, 2>>
                      /\ tactic' = t2
                      /\ IF ~Accepted(inc2, rem) THEN pc' = "Final" /\ bad' = TRUE /\ UNCHANGED <<idx, phase>>
                         ELSE /\ UNCHANGED bad
                              /\ IF Filled(us2, t2) THEN pc' = "Poll" /\ idx' = 1 /\ phase' = 2
                                 ELSE pc' = "RoundEnd" /\ UNCHANGED <<idx, phase>>
  /\ UNCHANGED <<actual, processed, carry, lim, drained, intr>> /\ UNCHANGED evars

RoundEnd == \* loop(): base() returned; hook RoundEnd{processed}; then the idle sleep (no event)
  /\ \/ pc = "RoundEnd"
     \/ pc = "Poll" /\ phase = 2 /\ NextPollable = 0
  /\ IF ~processed /\ \A p \in Prios : drained[p]
     THEN pc' = "Final" /\ UNCHANGED lim
     ELSE pc' = "LimFb" /\ lim' = 0
  /\ UNCHANGED <<idx, phase, actual, tactic, processed, carry, drained, intr, bad, finfo>> /\ UNCHANGED evars

FbLim ==    \* getLimitedFeedback(): one non-blocking read; hook FbLim{p}
  /\ pc = "LimFb" /\ lim < FbLimit /\ FbRecv
  /\ lim' = lim + 1
  /\ UNCHANGED <<pc, idx, phase, tactic, processed, carry, drained, intr, bad, finfo, inq, closed, written, outq, held, recvd>>

LimDone ==  \* getLimitedFeedback() returns; hook LimDone
  /\ pc = "LimFb" /\ (lim = FbLimit \/ fbq = <<>>)
  /\ pc' = "Calc" /\ processed' = FALSE
  /\ UNCHANGED <<idx, phase, actual, tactic, carry, lim, drained, intr, bad, finfo>> /\ UNCHANGED evars

FbFinal ==  \* waitZeroActual(): blocking read; hook FbFinal
  /\ pc = "Final" /\ Sum(actual) # 0 /\ FbRecv
  /\ UNCHANGED <<pc, idx, phase, tactic, processed, carry, lim, drained, intr, bad, finfo, inq, closed, written, outq, held, recvd>>

Closing ==  \* main(): loop returned (error value, if any, put on err); hooks Err?, Closing; then the closes; hook Exit
  /\ pc = "Final" /\ Sum(actual) = 0
  /\ pc' = "Closed"
  /\ UNCHANGED <<idx, phase, actual, tactic, processed, carry, lim, drained, intr, bad, finfo>> /\ UNCHANGED evars

Sched == Start \/ Calc \/ FbOne \/ Take \/ Send \/ PollEmpty \/ PollTick \/ Drain \/ Recalc \/ RoundEnd
         \/ FbLim \/ LimDone \/ FbFinal \/ Closing

\* ---------------------------------------------------------------- environment
Produce(p) ==   \* a producer writes the next item (unbuffered: parks until the scheduler takes it)
  /\ ~Saturated /\ ~closed[p] /\ Len(inq[p]) < InSlots(p)
  /\ written[p] < Items[p]
  /\ written' = [written EXCEPT ![p] = @ + 1]
  /\ inq' = [inq EXCEPT ![p] = Append(@, written[p] + 1)]
  /\ UNCHANGED svars /\ UNCHANGED <<closed, outq, fbq, pendq, held, recvd>>
CloseIn(p) ==
  /\ ~Saturated /\ ~closed[p] /\ written[p] = Items[p] /\ p \notin NoClose
  /\ InCap[p] = 0 => inq[p] = <<>>           \* never close under a parked writer
  /\ closed' = [closed EXCEPT ![p] = TRUE]
  /\ UNCHANGED svars /\ UNCHANGED <<inq, written, outq, fbq, pendq, held, recvd>>
Recv ==         \* a handler receives from Output()
  /\ outq # <<>>
  /\ held' = [held EXCEPT ![Head(outq)[1]] = @ + 1]
  /\ recvd' = IF Saturated THEN recvd ELSE [recvd EXCEPT ![Head(outq)[1]] = @ + 1]
  /\ outq' = Tail(outq)
  /\ UNCHANGED svars /\ UNCHANGED <<inq, closed, written, fbq, pendq>>
Release(p) ==   \* a handler calls Release(p): enters the buffer, or parks when the buffer is full
  /\ held[p] > 0
  /\ held' = [held EXCEPT ![p] = @ - 1]
  /\ IF Len(fbq) < FbCap THEN fbq' = Append(fbq, p) /\ UNCHANGED pendq
     ELSE pendq' = Append(pendq, p) /\ UNCHANGED fbq
  /\ UNCHANGED svars /\ UNCHANGED <<inq, closed, written, outq, recvd>>
Env == Recv \/ \E p \in Prios : Produce(p) \/ CloseIn(p) \/ Release(p)

Next == Sched \/ Env
Spec == Init /\ [][Next]_vars

\* ---------------------------------------------------------------- fairness (liveness configurations only)
\* weak fairness of every scheduler action; strong fairness of taking an item from / seeing the closure of an unbuffered
\* input against the competing tick (Go's select picks uniformly among ready cases); handlers eventually
\* receive and release, producers eventually write and close
SchedFair == /\ WF_vars(Start) /\ WF_vars(Calc) /\ WF_vars(FbOne) /\ SF_vars(Take) /\ WF_vars(Send)
             /\ WF_vars(PollEmpty) /\ WF_vars(PollTick) /\ SF_vars(Drain) /\ WF_vars(Recalc) /\ WF_vars(RoundEnd)
             /\ WF_vars(FbLim) /\ WF_vars(LimDone) /\ WF_vars(FbFinal) /\ WF_vars(Closing)
EnvFair == /\ WF_vars(Recv)
           /\ \A p \in Prios : WF_vars(Release(p)) /\ WF_vars(Produce(p)) /\ WF_vars(CloseIn(p))
LiveSpec == Spec /\ SchedFair /\ EnvFair
VacuitySpec == Spec /\ SchedFair      \* handlers need not release: liveness must FAIL here (vacuity guard)

\* ---------------------------------------------------------------- properties
InFlightOut == Len(outq) + Sum(held)            \* handed out, release not yet issued (C01, external reading)
C01_Capacity == InFlightOut <= H /\ Sum(actual) <= H
C01_Round == pc \in {"Poll", "Send", "RoundEnd"} => Sum(actual) + Sum(tactic) <= H
CountIn(s, p) == Len(SelectSeq(s, LAMBDA x : x = p))
CountOut(p) == Len(SelectSeq(outq, LAMBDA x : x[1] = p))
C01_Conservation == \A p \in Prios : actual[p] = CountOut(p) + held[p] + CountIn(fbq, p) + CountIn(pendq, p)
\* the detailed state maps into the inductive invariant of the counter abstraction CapInd.tla (proved for every H by Apalache)
\* under out[p] = CountOut(p) + held[p], fb[p] = CountIn(fbq, p) + CountIn(pendq, p)
C01_AbsInd == /\ C01_Conservation /\ Sum(actual) <= H
              /\ (pc \in {"Poll", "Send"} => Sum(actual) + Sum(tactic) <= H)
              /\ (pc = "Send" <=> carry # <<>>)
              /\ (carry # <<>> => tactic[carry[1]] > 0)
TypeOK == /\ \A p \in Prios : actual[p] >= 0 /\ tactic[p] >= 0 /\ held[p] >= 0
          /\ Len(outq) <= OutCap /\ Len(fbq) <= FbCap /\ (pendq # <<>> => Len(fbq) = FbCap)

\* C02: per input, what is in carry/outq continues what was received, the input queue continues that
ItemsOf(p) == LET inOut == SelectSeq(outq, LAMBDA x : x[1] = p)
                  c == IF carry # <<>> /\ carry[1] = p THEN <<carry>> ELSE <<>>
              IN [i \in 1..Len(inOut) |-> inOut[i][2]] \o [i \in 1..Len(c) |-> c[i][2]] \o inq[p]
C02_Order == ~Saturated => \A p \in Prios :
               LET s == ItemsOf(p) IN s = [i \in 1..Len(s) |-> recvd[p] + i] /\ recvd[p] + Len(s) = written[p]
\* C07: closed only when everything is closed, drained, delivered and released
C07_Closed == (pc = "Closed" /\ ~bad) => /\ \A p \in Prios : closed[p] /\ inq[p] = <<>> /\ held[p] = 0 /\ recvd[p] = written[p]
                                         /\ outq = <<>> /\ fbq = <<>> /\ pendq = <<>>
\* after a divider fault the discipline still waits for every in-flight item before it closes
C15_ClosedAfterRelease == (pc = "Closed" /\ bad) => Sum(held) = 0 /\ outq = <<>> /\ fbq = <<>> /\ pendq = <<>>
\* C15: after a rejected division nothing more is delivered (pc never returns to the round)
C15_FailSafe == bad => pc \in {"Final", "Closed"}
\* C05 (Saturated): never more than the strategic share in flight; all handlers taken when nothing is outstanding
C05_Share == Saturated => \A p \in Prios : actual[p] <= Strategic[p] /\ CountOut(p) + held[p] <= Strategic[p]
C05_Full == (Saturated /\ pc = "WaitFb" /\ fbq = <<>>) => actual = Strategic
\* C06 safety form: the scheduler never blocks for feedback with nothing in flight
C06_NoIdleBlock == (pc = "WaitFb" /\ fbq = <<>> /\ pendq = <<>>) => Sum(actual) > 0 /\ InFlightOut > 0

AllDone == pc = "Closed"
C07_Live == <>AllDone
C06_Live == \A p \in Prios : <>(recvd[p] = Items[p])

\* views hiding nothing semantic (no history variables in this spec); saturated configs bound the counters by construction
=============================================================================
