SPECIFICATION FairSpec
CONSTANTS Configs <- V1Q  MaxItems = 2  Horizon = 4  Regime = "free"
INVARIANTS NoViol
PROPERTIES C16_StopLive
CHECK_DEADLOCK FALSE
