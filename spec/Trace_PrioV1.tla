---------------------------- MODULE Trace_PrioV1 ----------------------------
(* Trace validation (code -> spec) for the v1 priority discipline: every record of a gated run of the REAL code
   (harness/prioh TestRecordV1: each scheduler step = one hook event with a snapshot of the private counters,
   interleaved with the environment's own actions) must be explained by the corresponding action of PrioV1 with the
   logged values.  Everything is logged, so validation is linear; Go's random choice among ready select cases is
   resolved by the event name.  Many traces in one file, one initial state per trace; a trace the specification
   cannot follow sets `stuck` at the first unexplainable record (reported as DRIFT by the driver, not as a violation:
   verdicts come from Mon_Prio).  Records after the `Free` marker (free-running end game) are not validated. *)
EXTENDS PrioV1, Json

Log == ndJsonDeserialize("trace.ndjson")
Starts == {j \in 1..Len(Log) : Log[j].e = "Reset"}

VARIABLES l, t0, stuck
tvars == <<vars, l, t0, stuck>>

PairsToFn(pairs) == [p \in Universe |-> IF \E i \in 1..Len(pairs) : pairs[i][1] = p
                                       THEN pairs[CHOOSE i \in 1..Len(pairs) : pairs[i][1] = p][2] ELSE 0]
\* the snapshot taken by the hook right after the step
\* (the OneStop/OneCtx hook fires inside getOneFeedback, before waitCalcTactic empties the tactic: no tactic comparison there)
Snap(e) == /\ actual' = PairsToFn(e.actual)
           /\ e.ev \in {"OneStop", "OneCtx"}
              \/ \A p \in Universe : (\E i \in 1..Len(e.tactic) : e.tactic[i][1] = p) => tactic'[p] = PairsToFn(e.tactic)[p]
           /\ prios' = e.prios
           /\ \A i \in 1..Len(e.prios) : strategic'[e.prios[i]] = PairsToFn(e.strategic)[e.prios[i]]

TInit == Init /\ t0 \in Starts /\ l = t0 /\ stuck = FALSE

SchedStep(e) ==
  CASE e.ev = "Start" -> Start
    [] e.ev \in {"TopStop", "TopCtx"} -> TopStop /\ (e.ev = "TopStop" => stopReq) /\ (e.ev = "TopCtx" => ctxDone)
    [] e.ev = "TopAdd" -> TopAdd /\ addq[2] = e.p
    [] e.ev = "TopRemove" -> TopRemove /\ rmvq[1] = e.p
    [] e.ev = "TopFb" -> TopFb /\ Head(fbq) = e.p
    [] e.ev = "TopDefault" -> TopDefault
    [] e.ev = "Calc" -> Calc /\ ~bad' /\ (e.flag <=> pc' = "Poll")
    [] e.ev = "Bad" -> (Calc \/ Recalc) /\ bad'
    [] e.ev = "FbOne" -> FbOne /\ Head(fbq) = e.p
    [] e.ev \in {"OneStop", "OneCtx"} -> OneStop
    [] e.ev = "SendStart" -> Take /\ carry'[1] = e.p
    [] e.ev = "Send" -> Send /\ carry[1] = e.p
    [] e.ev \in {"SendStop", "SendCtx"} -> SendStop
    [] e.ev \in {"PollStop", "PollCtx"} -> PollStop /\ prios[NextPollable] = e.p
    [] e.ev = "PollEmpty" -> PollEmpty /\ prios[NextPollable] = e.p
    [] e.ev = "PollTick" -> PollTick /\ prios[NextPollable] = e.p /\ (e.flag <=> intr)
    [] e.ev = "Drained" -> Drain /\ prios[NextPollable] = e.p
    [] e.ev = "Recalc" -> Recalc /\ ~bad' /\ (e.flag <=> pc' = "Poll")
    [] e.ev = "RoundEnd" -> RoundEnd /\ (e.flag <=> processed)
    [] e.ev = "Graceful" -> Graceful
    [] e.ev = "FbLim" -> FbLim /\ Head(fbq) = e.p
    [] e.ev \in {"LimStop", "LimCtx"} -> LimStop
    [] e.ev = "LimDone" -> LimDone
    [] e.ev = "FbFinal" -> FbFinal /\ Head(fbq) = e.p
    [] e.ev \in {"FinalStop", "FinalCtx"} -> FinalStop
    [] e.ev = "Closing" -> Closing
    [] OTHER -> FALSE

\* hook events that are not steps of the model's state machine
NoStep(e) == e.e = "S" /\ e.ev \in {"Err", "Exit"}

Consume ==
  /\ ~stuck /\ l < Len(Log)
  /\ LET e == Log[l + 1] IN
     /\ e.e \notin {"Reset", "Free"}
     /\ l' = l + 1 /\ UNCHANGED <<t0, stuck>>
     /\ CASE e.e = "S" /\ ~NoStep(e) -> SchedStep(e) /\ Snap(e)
          [] NoStep(e) -> UNCHANGED vars
          [] e.e = "W" -> Produce(e.c) /\ written'[e.c] = e.k
          [] e.e = "C" -> CloseIn(e.c)
          [] e.e = "R" -> Recv /\ Head(outq) = <<e.p, e.c, e.k>>
          [] e.e = "L" -> Release(e.p)
          [] e.e = "Stop" -> Stop
          [] e.e = "Cancel" -> Cancel
          [] e.e = "Grace" -> GracefulStop
          [] e.e = "AddCall" -> AddInput(<<e.c, e.p>>)
          [] e.e = "RmvCall" -> RemoveInput(e.p)
          \* pure observations: a returned call must have been served by the model as well
          [] e.e = "AddRet" -> addq = <<>> /\ <<e.c, e.p>> \in addsDone /\ UNCHANGED vars
          [] e.e = "RmvRet" -> rmvq = <<>> /\ e.p \in rmvsDone /\ UNCHANGED vars
          [] e.e \in {"StopRet", "GraceRet"} -> pc = "Closed" /\ UNCHANGED vars
          [] e.e = "Taken" -> UNCHANGED vars
          [] OTHER -> UNCHANGED vars

\* the next record cannot be explained: remember where, stop following this trace
Stuck ==
  /\ ~stuck /\ l < Len(Log) /\ Log[l + 1].e \notin {"Reset", "Free"}
  /\ ~ENABLED Consume
  /\ stuck' = TRUE /\ UNCHANGED <<vars, l, t0>>

TNext == Consume \/ Stuck
TSpec == TInit /\ [][TNext]_tvars

NotStuck == ~stuck                        \* conformance (drift when violated)
\* the invariants of the system specification are evaluated in every state of every validated trace
TraceInvariants == TypeOK /\ C01_Capacity /\ C01_Round /\ C01_Conservation /\ C02_Order /\ C15_FailSafe
=============================================================================
