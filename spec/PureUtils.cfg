INIT Init
NEXT Next
INVARIANTS C18_nf C18_pick C18_suit C18_picksuit C18_new C15_new C15_newfault
CHECK_DEADLOCK FALSE
