SPECIFICATION Spec
CONSTANTS
 Configs <- CfgsQuick
 MaxItems = 4  Horizon = 7
 Urgent = FALSE  LockStep = FALSE  ReadyCons = FALSE  EagerProd = FALSE  KeepHist = FALSE
INVARIANTS TypeOK NoViol C04_Struct C04_Cum C12_Order C12_Closed
CHECK_DEADLOCK FALSE
