SPECIFICATION Spec
CONSTANTS Configs <- V2Tiny  MaxItems = 3  Horizon = 4  Regime = "urgent"
INVARIANTS NoViol
VIEW View
CHECK_DEADLOCK FALSE
