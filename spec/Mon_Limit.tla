----------------------------- MODULE Mon_Limit -----------------------------
(* Property monitors for C04 and C12 over OBSERVED FACTS ONLY of lock-step traces recorded from the real v2 limit
   discipline: what was written / received and when (virtual time in units since creation), len(input) (+ one
   blocked writer), len(Output()) sampled after every harness step, cap(Output()), Output() seen closed.
   Nothing of Limit.tla is used here: the monitor knows no program counter and no batch boundaries.

   The log holds many traces (Reset record = configuration q, i, cap, ocap); every trace is judged from its own
   initial state by the total, deterministic step function below; the names of the violated clauses (with the
   index of the first offending record) are collected in `bad` and reported on a VERDICT line when the trace ends.
   Clause names starting with C04 / C12 are verdicts about the property.

   Emission instants: e[j] = virtual time of the first observation with received + len(Output()) >= j.  The harness
   observes after every single clock step, the discipline only acts at harness actions and at timer expiry, so on a
   whole-unit schedule the instants are exact; otherwise they are rounded UP to the next unit, and with integer I
   floor((ceil a - ceil b)/I) >= floor((a - b)/I): the monitor is never stricter than the property.

   C04  cum      j <= Q*(floor(e[j]/I)+1)                               (all emissions)
        window   j-i+1 <= Q*(floor((e[j]-e[i])/I)+2)                    (ALL pairs of emissions)
        recv     the same two formulas over consumer-receive instants while the consumer was continuously
                 ready (no clock step was taken with a non-empty output); otherwise the window formula with
                 + cap(Output()) slack (DESIGN N1: buffered elements may be drained in one instant)
   C12  order        received values are 1,2,3,... = the written prefix, nothing extra, nothing after close
        closed_early output seen closed only after the input was closed and everything written was received
        deadline     with the input closed and the consumer ready from an instant t on, the output is closed by
                     t + (floor(outstanding/Q)+1)*I
        pause        with a ready consumer the first Q elements pass with no pause: e[j] = max(w[j], e[j-1])
        sched        everything available up-front (nothing is written after a clock step that was taken with an
                     empty input) and a ready consumer: element j (0-based) is emitted at exactly (j div Q)*I
        close_time   ... and the output closes at exactly max(t_close_input, (N div Q)*I)
        close_pause  fewer than Q elements in total and a ready consumer: closes at the instant the input closes
        rate         "does not throttle below the configured rate", for every arrival pattern: with a ready consumer element j > Q
                     leaves no later than max(it was written, element j-1 left, element j-Q left + Interval) *)
EXTENDS Integers, Sequences, FiniteSets, TLC, Json

TraceLog == ndJsonDeserialize("limit_trace.ndjson")
NRec == Len(TraceLog)
ResetPos == {n \in 1..NRec : TraceLog[n].ev = "Reset"}
Max(a, b) == IF a >= b THEN a ELSE b

VARIABLES l, done, cq, ci, ocap,
          closedIn, tc, nW, wt, rc, rt, em, rdy, eag, lapse, dl, seenClosed, bad
mvars == <<l, done, cq, ci, ocap, closedIn, tc, nW, wt, rc, rt, em, rdy, eag, lapse, dl, seenClosed, bad>>

MInit == \E r \in ResetPos :
  /\ l = r /\ done = FALSE
  /\ cq = TraceLog[r].q /\ ci = TraceLog[r].i /\ ocap = TraceLog[r].ocap
  /\ closedIn = FALSE /\ tc = -1 /\ nW = 0 /\ wt = <<>> /\ rc = 0 /\ rt = <<>> /\ em = <<>>
  /\ rdy = TRUE /\ eag = TRUE /\ lapse = FALSE /\ dl = -1 /\ seenClosed = FALSE /\ bad = {}

Add(b, cond, name, idx) == IF cond /\ ~(\E x \in b : x[1] = name) THEN b \cup {<<name, idx>>} ELSE b

\* the formulas of C04 over a sequence of instants s, for its last element, with slack
CumOK(s, t)        == Len(s) <= cq * (t \div ci + 1)
WindowOK(s, slack) == \A i \in 1..Len(s) : Len(s) - i + 1 <= cq * ((s[Len(s)] - s[i]) \div ci + 2) + slack

Step ==
  /\ ~done /\ l < NRec /\ TraceLog[l + 1].ev # "Reset"
  /\ LET e == TraceLog[l + 1]
         p == TraceLog[l]
         t == e.now
         isAdv == e.ev = "Adv"
         isRecv == e.ev = "Recv"
         nW1 == IF e.ev = "Write" THEN nW + 1 ELSE nW
         wt1 == IF e.ev = "Write" THEN Append(wt, t) ELSE wt
         rc1 == IF isRecv THEN rc + 1 ELSE rc
         rt1 == IF isRecv THEN Append(rt, t) ELSE rt
         cin1 == closedIn \/ e.ev = "Close"
         tc1 == IF e.ev = "Close" THEN t ELSE tc
         rdy1 == rdy /\ ~(isAdv /\ p.outlen > 0)
         lapse1 == lapse \/ (isAdv /\ p.inlen = 0)      \* a clock step was taken with an empty input ...
         eag1 == eag /\ ~(e.ev = "Write" /\ lapse)       \* ... and something was written later: not up-front
         emN == rc1 + e.outlen
         old == Len(em)
         fresh == emN > old
         em1 == IF fresh THEN em \o [x \in 1..(emN - old) |-> t] ELSE em
         j0 == old + 1
         prevE == IF j0 = 1 THEN 0 ELSE em[j0 - 1]
         firstClosed == e.closed /\ ~seenClosed
         dl0 == IF isAdv /\ p.outlen > 0 THEN -1 ELSE dl
         dl1 == IF cin1 /\ ~e.closed /\ dl0 = -1 /\ e.outlen = 0
                THEN t + ((nW1 - emN) \div cq + 1) * ci ELSE dl0
         b1 == Add(bad, fresh /\ ~CumOK(em1, t), "C04_cum", l + 1)
         b2 == Add(b1, fresh /\ ~WindowOK(em1, 0), "C04_window", l + 1)
         b3 == Add(b2, isRecv /\ rdy1 /\ ~(CumOK(rt1, t) /\ WindowOK(rt1, 0)), "C04_recv_ready", l + 1)
         b4 == Add(b3, isRecv /\ ~rdy1 /\ ~(CumOK(rt1, t) /\ WindowOK(rt1, ocap)), "C04_recv_slack", l + 1)
         b5 == Add(b4, isRecv /\ (e.x # rc + 1 \/ e.x > nW1 \/ seenClosed), "C12_order", l + 1)
         b6 == Add(b5, e.closed /\ ~(cin1 /\ rc1 = nW1 /\ e.outlen = 0), "C12_closed_early", l + 1)
         b7 == Add(b6, dl0 # -1 /\ t > dl0 /\ ~e.closed, "C12_deadline", l + 1)
         b8 == Add(b7, fresh /\ rdy1 /\ j0 <= cq /\ j0 <= nW1 /\ t > Max(wt1[j0], prevE), "C12_pause", l + 1)
         b9 == Add(b8, fresh /\ rdy1 /\ eag1 /\ \E j \in j0..emN : t # ((j - 1) \div cq) * ci, "C12_sched", l + 1)
         b10 == Add(b9, firstClosed /\ rdy1 /\ eag1 /\ t # Max(tc1, (nW1 \div cq) * ci), "C12_close_time", l + 1)
         b11 == Add(b10, firstClosed /\ rdy1 /\ nW1 < cq /\ t # tc1, "C12_close_pause", l + 1)
         b12 == Add(b11, fresh /\ rdy1 /\ j0 > cq /\ j0 <= nW1
                         /\ t > Max(Max(wt1[j0], prevE), em[j0 - cq] + ci),
                    "C12_rate", l + 1)
         b13 == Add(b12, seenClosed /\ ~e.closed, "C12_reopened", l + 1)
     IN /\ l' = l + 1
        /\ nW' = nW1 /\ wt' = wt1 /\ rc' = rc1 /\ rt' = rt1 /\ closedIn' = cin1 /\ tc' = tc1
        /\ rdy' = rdy1 /\ eag' = eag1 /\ lapse' = lapse1 /\ em' = em1 /\ dl' = dl1
        /\ seenClosed' = (seenClosed \/ e.closed)
        /\ bad' = b13
  /\ UNCHANGED <<done, cq, ci, ocap>>

Finish ==
  /\ ~done /\ (IF l = NRec THEN TRUE ELSE TraceLog[l + 1].ev = "Reset")
  /\ PrintT(<<"VERDICT", TraceLog[l].tr, bad, <<rdy, eag, seenClosed, Len(em)>> >>)
  /\ done' = TRUE
  /\ UNCHANGED <<l, cq, ci, ocap, closedIn, tc, nW, wt, rc, rt, em, rdy, eag, lapse, dl, seenClosed, bad>>

MNext == Step \/ Finish
MSpec == MInit /\ [][MNext]_mvars

\* the properties as state predicates (the check reads the VERDICT lines; these are for interactive use with TLC)
C04_Holds == \A x \in bad : x[1] \notin {"C04_cum", "C04_window", "C04_recv_ready", "C04_recv_slack"}
C12_Holds == \A x \in bad : x[1] \notin {"C12_order", "C12_closed_early", "C12_deadline", "C12_pause", "C12_sched",
                                         "C12_close_time", "C12_close_pause", "C12_reopened", "C12_rate"}
MonTotal == l <= NRec
=============================================================================
