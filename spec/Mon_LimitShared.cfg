SPECIFICATION Spec
INVARIANT M_All
CHECK_DEADLOCK FALSE
