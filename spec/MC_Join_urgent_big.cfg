SPECIFICATION Spec
CONSTANTS Configs <- V2Small  MaxItems = 5  Horizon = 12  Regime = "urgent"
INVARIANTS NoViol TypeOK C03_Rest C03_Out C08_Frozen C08_CopyFresh
PROPERTIES C09_Action
VIEW View
CHECK_DEADLOCK FALSE
