SPECIFICATION Spec
CONSTANTS Configs <- V2Q  MaxItems = 4  Horizon = 9  Regime = "urgent"
INVARIANTS NoViol TypeOK C03_Rest C03_Out C08_Frozen C08_CopyFresh
PROPERTIES C09_Action
VIEW View
CHECK_DEADLOCK FALSE
