INIT Init
NEXT Next
CONSTANTS
  Universe = {1, 2, 3, 5, 8, 13, 40}
  MaxN = 5
  MaxD = 40
INVARIANTS FairOK RateOK RateDetOK
CHECK_DEADLOCK FALSE
