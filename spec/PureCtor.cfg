SPECIFICATION Spec
INVARIANTS ConfCtor_Result ConfCtor_Capacity
CHECK_DEADLOCK FALSE
