SPECIFICATION Spec
INVARIANTS M_C01 M_C02 M_C05 M_C06 M_C07 M_C15 M_C16 M_C17 M_C19 M_Harness
CHECK_DEADLOCK FALSE
