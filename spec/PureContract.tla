---------------------------- MODULE PureContract ----------------------------
(* C15, first sentence: the arguments with which a priority discipline calls its divider, recorded by a
   wrapping divider during free-running and replayed runs of the REAL code (distinct calls only).
   record: [prios (configured or ever registered, highest first), H, ps, d, nonnil, v1] *)
EXTENDS Integers, Sequences, Json, TLC
Calls == ndJsonDeserialize("contract_calls.ndjson")
VARIABLE i
Init == i \in 1..Len(Calls)
Next == UNCHANGED i
C == Calls[i]
Range(s) == {s[j] : j \in 1..Len(s)}
C15_contract ==
  /\ \A j \in 1..Len(C.ps)-1 : C.ps[j] > C.ps[j+1]       \* distinct, sorted from highest to lowest
  /\ Range(C.ps) \subseteq Range(C.prios)                \* configured priorities only
  /\ C.d <= C.H                                          \* dividend never exceeds HandlersQuantity
  /\ (C.v1 \/ C.nonnil)                                 \* v2: never a nil distribution
=============================================================================
