------------------------------- MODULE Unite -------------------------------
(* Explicit-time specification of the unite discipline (v2/join/unite/unite.go): Join with a slice-valued input.
   process(item) is the three-way case analysis of the code:
     len(item) >= JoinSize                   -> pass(); forward(item)        (SelectInput -> pass actions -> FwdPut [-> FwdReleased])
     len(item) + len(join) > JoinSize        -> pass(); append; (pass at JoinSize cannot follow: len(item) < JoinSize)
     otherwise                               -> append; pass at JoinSize
   Elements are the integers 1..written, an input slice is a run of consecutive integers (possibly empty); `parts`
   remembers the lengths of the input slices accumulated in `join` (C11 is evaluated on it when the slice is emitted).
   Memory: copy mode allocates a fresh array per output; no-copy mode hands out the accumulation array (BufMem) or,
   for a forwarded slice, the producer's own array (-slice ordinal) and waits for Release. *)
EXTENDS Integers, Sequences, FiniteSets, TLC

CONSTANTS Configs,    \* set of records [J, T, I, InCap, NoCopy]
          Lens,       \* admissible input slice lengths
          MaxSlices, MaxItems, Horizon, Regime

VARIABLES cfg, now, tickAt, tickPending, passAt, join, parts, item, itemNo, itemAt, inq, inClosed, written, nSlices,
          outq, pc, after, lent, nSent, lastId, oldestAt, lastPutAt, viol

vars == <<cfg, now, tickAt, tickPending, passAt, join, parts, item, itemNo, itemAt, inq, inClosed, written, nSlices,
          outq, pc, after, lent, nSent, lastId, oldestAt, lastPutAt, viol>>

J == cfg.J
T == cfg.T
I == cfg.I
Timed == cfg.T > 0
OutCap == 1 + cfg.InCap
InSlots == IF cfg.InCap = 0 THEN 1 ELSE cfg.InCap
BufMem == 0

InitWith(c) ==
  /\ cfg = c
  /\ now = 0 /\ tickAt = c.I /\ tickPending = FALSE /\ passAt = 0
  /\ join = <<>> /\ parts = <<>> /\ item = <<>> /\ itemNo = 0 /\ itemAt = 0
  /\ inq = <<>> /\ inClosed = FALSE /\ written = 0 /\ nSlices = 0
  /\ outq = <<>> /\ pc = "Select" /\ after = "Select" /\ lent = FALSE
  /\ nSent = 0 /\ lastId = 0 /\ oldestAt = -1 /\ lastPutAt = 0 /\ viol = "none"

Init == \E c \in Configs : InitWith(c)

Sum(s) == LET f[i \in 0..Len(s)] == IF i = 0 THEN 0 ELSE f[i - 1] + s[i] IN f[Len(s)]
Consecutive(s) == \A i \in 1..Len(s) : s[i] = s[1] + i - 1

\* ------------------------------------------------------------------ discipline
SelectInput ==
  /\ pc = "Select" /\ inq # <<>>
  /\ inq' = Tail(inq)
  /\ LET it == Head(inq).elems IN
     IF Len(it) >= J
     THEN /\ item' = it /\ itemNo' = Head(inq).no /\ itemAt' = now /\ pc' = "Send" /\ after' = "Forward"
          /\ UNCHANGED <<join, parts, oldestAt, viol>>
     ELSE IF Len(it) + Len(join) > J
     THEN /\ item' = it /\ itemNo' = Head(inq).no /\ itemAt' = now /\ pc' = "Send" /\ after' = "Append"
          /\ UNCHANGED <<join, parts, oldestAt, viol>>
     ELSE /\ join' = join \o it
          /\ parts' = IF it = <<>> THEN parts ELSE Append(parts, Len(it))
          /\ oldestAt' = IF join = <<>> THEN now ELSE oldestAt
          /\ viol' = IF lent /\ it # <<>> /\ viol = "none" THEN "C08" ELSE viol
          /\ IF Len(join') >= J THEN pc' = "Send" /\ after' = "Select" ELSE UNCHANGED <<pc, after>>
          /\ UNCHANGED <<item, itemNo, itemAt>>
  /\ UNCHANGED <<cfg, now, tickAt, tickPending, passAt, inClosed, written, nSlices, outq, lent, nSent, lastId, lastPutAt>>

SelectClosed ==
  /\ pc = "Select" /\ inq = <<>> /\ inClosed
  /\ pc' = "Send" /\ after' = "Exit"
  /\ UNCHANGED <<cfg, now, tickAt, tickPending, passAt, join, parts, item, itemNo, itemAt, inq, inClosed, written, nSlices,
                 outq, lent, nSent, lastId, oldestAt, lastPutAt, viol>>

SelectTick ==
  /\ Timed /\ pc = "Select" /\ tickPending
  /\ tickPending' = FALSE
  /\ IF now - passAt >= T THEN pc' = "Send" /\ after' = "Select" ELSE UNCHANGED <<pc, after>>
  /\ UNCHANGED <<cfg, now, tickAt, passAt, join, parts, item, itemNo, itemAt, inq, inClosed, written, nSlices,
                 outq, lent, nSent, lastId, oldestAt, lastPutAt, viol>>

\* what follows the end of pass(): back to the loop, exit, forward(item), or the append of the second branch
PassDone ==
  /\ passAt' = now /\ lent' = FALSE
  /\ CASE after = "Exit"    -> pc' = "Exited" /\ join' = <<>> /\ parts' = <<>> /\ UNCHANGED <<item, oldestAt>>
       [] after = "Select"  -> pc' = "Select" /\ join' = <<>> /\ parts' = <<>> /\ UNCHANGED <<item, oldestAt>>
       [] after = "Forward" -> pc' = "Fwd" /\ join' = <<>> /\ parts' = <<>> /\ UNCHANGED <<item, oldestAt>>
       [] after = "Append"  -> pc' = "Select" /\ join' = item /\ parts' = <<Len(item)>> /\ item' = <<>> /\ oldestAt' = itemAt

PassEmpty ==
  /\ pc = "Send" /\ join = <<>>
  /\ PassDone
  /\ UNCHANGED <<cfg, now, tickAt, tickPending, itemNo, itemAt, inq, inClosed, written, nSlices, outq, after,
                 nSent, lastId, lastPutAt, viol>>

PutViol ==
  IF viol # "none" THEN viol
  ELSE IF ~Consecutive(join) \/ Len(join) > J \/ join[1] # lastId + 1 THEN "C03"
  ELSE IF lent THEN "C08"
  ELSE IF Sum(parts) # Len(join) \/ \E k \in 1..Len(parts) : parts[k] >= J THEN "C11"
  ELSE IF Len(join) < J /\ after = "Select" /\ ~(Timed /\ now - lastPutAt >= T) THEN "C09"
  ELSE IF Len(join) < J /\ after \in {"Forward", "Append"} /\ Len(join) + Len(item) <= J THEN "C09"
  ELSE IF Regime = "ready" /\ Timed /\ now - oldestAt > T + I THEN "C10"
  ELSE "none"

SendPut ==
  /\ pc = "Send" /\ join # <<>> /\ Len(outq) < OutCap
  /\ outq' = Append(outq, [elems |-> join, mem |-> IF cfg.NoCopy THEN BufMem ELSE nSent + 1])
  /\ nSent' = nSent + 1 /\ lastId' = join[Len(join)] /\ lastPutAt' = now
  /\ viol' = PutViol
  /\ IF cfg.NoCopy
     THEN pc' = "RelWait" /\ lent' = TRUE /\ UNCHANGED <<join, parts, item, passAt, oldestAt>>
     ELSE PassDone
  /\ UNCHANGED <<cfg, now, tickAt, tickPending, itemNo, itemAt, inq, inClosed, written, nSlices, after>>

Released ==
  /\ pc = "RelWait"
  /\ PassDone
  /\ UNCHANGED <<cfg, now, tickAt, tickPending, itemNo, itemAt, inq, inClosed, written, nSlices, outq, after,
                 nSent, lastId, lastPutAt, viol>>

FwdViol ==
  IF viol # "none" THEN viol
  ELSE IF ~Consecutive(item) \/ Len(item) < J \/ item[1] # lastId + 1 THEN "C03"
  ELSE IF lent \/ join # <<>> THEN "C08"
  ELSE IF Regime = "ready" /\ Timed /\ now - itemAt > T + I THEN "C10"
  ELSE "none"

FwdPut ==    \* forward(): the producer's slice itself in no-copy mode
  /\ pc = "Fwd" /\ Len(outq) < OutCap
  /\ outq' = Append(outq, [elems |-> item, mem |-> IF cfg.NoCopy THEN 0 - itemNo ELSE nSent + 1])
  /\ nSent' = nSent + 1 /\ lastId' = item[Len(item)] /\ lastPutAt' = now
  /\ viol' = FwdViol
  /\ IF cfg.NoCopy THEN pc' = "FwdRel" /\ lent' = TRUE /\ UNCHANGED <<item, passAt>>
     ELSE pc' = "Select" /\ item' = <<>> /\ passAt' = now /\ UNCHANGED lent
  /\ UNCHANGED <<cfg, now, tickAt, tickPending, join, parts, itemNo, itemAt, inq, inClosed, written, nSlices, after, oldestAt>>

FwdReleased ==
  /\ pc = "FwdRel"
  /\ pc' = "Select" /\ item' = <<>> /\ passAt' = now /\ lent' = FALSE
  /\ UNCHANGED <<cfg, now, tickAt, tickPending, join, parts, itemNo, itemAt, inq, inClosed, written, nSlices, outq, after,
                 nSent, lastId, oldestAt, lastPutAt, viol>>

Disc == SelectInput \/ SelectClosed \/ SelectTick \/ PassEmpty \/ SendPut \/ FwdPut

\* ------------------------------------------------------------------ time
TickFire ==
  /\ Timed /\ now = tickAt /\ pc # "Exited"
  /\ tickPending' = TRUE /\ tickAt' = tickAt + I
  /\ UNCHANGED <<cfg, now, passAt, join, parts, item, itemNo, itemAt, inq, inClosed, written, nSlices,
                 outq, pc, after, lent, nSent, lastId, oldestAt, lastPutAt, viol>>

ConsumerRecv ==
  /\ outq # <<>> /\ outq' = Tail(outq)
  /\ UNCHANGED <<cfg, now, tickAt, tickPending, passAt, join, parts, item, itemNo, itemAt, inq, inClosed, written, nSlices,
                 pc, after, lent, nSent, lastId, oldestAt, lastPutAt, viol>>

Release == Released \/ FwdReleased
Quiet == ~ENABLED Disc /\ ~ENABLED TickFire
ConsumerIdle == ~ENABLED ConsumerRecv /\ ~ENABLED Release

Advance(d) ==
  /\ d >= 1 /\ now + d <= Horizon
  /\ (Timed /\ pc # "Exited") => now + d <= tickAt
  /\ Regime \in {"urgent", "ready"} => Quiet
  /\ Regime = "ready" => ConsumerIdle
  /\ now' = now + d
  /\ UNCHANGED <<cfg, tickAt, tickPending, passAt, join, parts, item, itemNo, itemAt, inq, inClosed, written, nSlices,
                 outq, pc, after, lent, nSent, lastId, oldestAt, lastPutAt, viol>>

\* ------------------------------------------------------------------ environment
Write(n) ==
  /\ ~inClosed /\ nSlices < MaxSlices /\ written + n <= MaxItems /\ Len(inq) < InSlots
  /\ written' = written + n /\ nSlices' = nSlices + 1
  /\ inq' = Append(inq, [no |-> nSlices + 1, elems |-> [i \in 1..n |-> written + i]])
  /\ UNCHANGED <<cfg, now, tickAt, tickPending, passAt, join, parts, item, itemNo, itemAt, inClosed,
                 outq, pc, after, lent, nSent, lastId, oldestAt, lastPutAt, viol>>

CloseIn ==
  /\ ~inClosed /\ (cfg.InCap = 0 => inq = <<>>)
  /\ inClosed' = TRUE
  /\ UNCHANGED <<cfg, now, tickAt, tickPending, passAt, join, parts, item, itemNo, itemAt, inq, written, nSlices,
                 outq, pc, after, lent, nSent, lastId, oldestAt, lastPutAt, viol>>

Env == (\E n \in Lens : Write(n)) \/ CloseIn \/ ConsumerRecv \/ Release

Next == Disc \/ TickFire \/ Advance(1) \/ Env
Spec == Init /\ [][Next]_vars

\* ------------------------------------------------------------------ properties
NoViol == viol = "none"

Flat(q) == LET f[i \in 0..Len(q)] == IF i = 0 THEN <<>> ELSE f[i - 1] \o q[i].elems IN f[Len(q)]

TypeOK ==
  /\ pc \in {"Select", "Send", "RelWait", "Fwd", "FwdRel", "Exited"} /\ after \in {"Select", "Exit", "Forward", "Append"}
  /\ Len(join) <= J /\ Len(outq) <= OutCap /\ Len(inq) <= InSlots /\ Sum(parts) = Len(join)
  /\ (lent <=> pc \in {"RelWait", "FwdRel"}) /\ (lent => cfg.NoCopy)
  /\ (pc \in {"Fwd", "FwdRel"} => Len(item) >= J /\ join = <<>>)

\* C03: delivered prefix, then what is inside, then what waits in the input = everything written
C03_Rest ==
  LET inside == (IF pc = "RelWait" THEN <<>> ELSE join) \o (IF pc = "FwdRel" THEN <<>> ELSE item)
      rest == inside \o Flat(inq)
  IN /\ rest = [i \in 1..Len(rest) |-> lastId + i]
     /\ lastId + Len(rest) = written
     /\ (pc = "Exited" => lastId = written /\ inq = <<>> /\ inClosed)
\* C03 sizes / C11 shape of every slice sitting in the output
C03_Out == \A k \in 1..Len(outq) : outq[k].elems # <<>> /\ Consecutive(outq[k].elems)
C08_Frozen == pc = "RelWait" => (join # <<>> /\ join[Len(join)] = lastId /\ Consecutive(join))
C08_CopyFresh == ~cfg.NoCopy => \A k \in 1..Len(outq) : outq[k].mem > 0
C10_Inside == (Regime = "ready" /\ Timed /\ join # <<>> /\ pc = "Select") => now - oldestAt <= T + I
C09_Action == [][(nSent' = nSent + 1 /\ pc = "Send" /\ Len(join) < J)
                 => (after = "Exit" \/ (after = "Select" /\ Timed /\ now - lastPutAt >= T)
                     \/ (after \in {"Forward", "Append"} /\ Len(join) + Len(item) > J))]_vars
\* C11 as an action property: an accepted input slice goes, whole, either into the buffer or aside for forwarding
C11_Action == [][inq # <<>> /\ inq' = Tail(inq) =>
                 LET it == Head(inq).elems IN join' = join \o it \/ (item' = it /\ join' = join)]_vars
=============================================================================
