SPECIFICATION Spec
CONSTANTS
 Configs <- CfgsThorough
 MaxItems = 10  Horizon = 6
 Urgent = TRUE  LockStep = FALSE  ReadyCons = TRUE  EagerProd = TRUE  KeepHist = TRUE
INVARIANTS TypeOK NoViol C04_Struct C04_Cum C12_Order C12_Closed C04_CumHist C04_Pairwise
CHECK_DEADLOCK FALSE
