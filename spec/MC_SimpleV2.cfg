SPECIFICATION LiveSpec
CONSTANTS
  H = 3
  Items = 4
  OutCap = 2
  ReleaseBeforeHandle = FALSE
INVARIANTS TypeOK C01_Simple C07_Closed
PROPERTIES C07_Live
CHECK_DEADLOCK FALSE
