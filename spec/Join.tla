------------------------------- MODULE Join -------------------------------
(* Explicit-time specification of the join discipline: v2 (v2/join/join.go) and v1 (join/join.go, cfg.V1).
   One action per channel operation / critical section of the single scheduling goroutine:

     SelectInput   loop/loopUntimeouted: `item := <-Input` + process (append; pass at JoinSize; v1: dropped when unreleased)
     SelectClosed  `!opened` -> return -> deferred pass
     SelectTick    `<-ticker.C` + isTimeouted -> pass
     SelectHalt    v1: breaker / ctx case of the loop select -> return -> deferred pass
     PassSkip      v1 pass(): `if unreleased {return}`
     PassEmpty     pass() on an empty buffer: only resetPassAt
     SendPut       send(): `output <- prepareItem(join)`; copy mode: + resetJoin + resetPassAt
     SendHalt      v1 send(): breaker/ctx wins the first select (slice is NOT written; resetJoin drops it)
     Released      no-copy: `<-release` / `<-Released` + resetJoin + resetPassAt   (rendezvous with the consumer)
     RelHalt       v1 send(): breaker/ctx wins the second select: unreleased := true
   and, for the clock: TickFire (ticker channel holds one tick, later ones are dropped), Advance.
   The configuration is a *variable* (chosen once in Init) so that one TLC run covers a set of configurations and
   one trace-validation run covers traces recorded with different options.

   History is kept as counters (elements are the integers 1..written); the checks that need the slice being emitted
   are evaluated inside SendPut and latch the ghost variable viol (C03 contents/size, C09 short => timeout or final,
   C10 age of the oldest element, C08 output/ buffer write while the consumer owns the no-copy slice). *)
EXTENDS Integers, Sequences, FiniteSets, TLC

CONSTANTS Configs,    \* set of records [J, T, I, InCap, NoCopy, V1]: JoinSize, Timeout, ticker period (T \div Div), cap(Input)
          MaxItems,   \* bound on elements written
          Horizon,    \* bound on now
          Regime      \* "free" | "urgent" (time advances only when the discipline is quiescent) | "ready" (+ consumer urgent)

VARIABLES cfg, now, tickAt, tickPending, passAt, join, inq, inClosed, written, outq, pc, after,
          stopReq, cancelled, unreleased, lent, nSent, lastId, oldestAt, lastPutAt, viol

vars == <<cfg, now, tickAt, tickPending, passAt, join, inq, inClosed, written, outq, pc, after,
          stopReq, cancelled, unreleased, lent, nSent, lastId, oldestAt, lastPutAt, viol>>

J == cfg.J
T == cfg.T
I == cfg.I
Timed == cfg.T > 0
OutCap == IF cfg.V1 THEN 1 ELSE 1 + cfg.InCap
InSlots == IF cfg.InCap = 0 THEN 1 ELSE cfg.InCap      \* cap 0: the blocked writer's element
Halt == stopReq \/ cancelled
BufMem == 0                                             \* identity of the accumulation array (never re-allocated: len <= cap = J)

InitWith(c) ==
  /\ cfg = c
  /\ now = 0 /\ tickAt = c.I /\ tickPending = FALSE /\ passAt = 0
  /\ join = <<>> /\ inq = <<>> /\ inClosed = FALSE /\ written = 0
  /\ outq = <<>> /\ pc = "Select" /\ after = "Select"
  /\ stopReq = FALSE /\ cancelled = FALSE /\ unreleased = FALSE /\ lent = FALSE
  /\ nSent = 0 /\ lastId = 0 /\ oldestAt = -1 /\ lastPutAt = 0 /\ viol = "none"

Init == \E c \in Configs : InitWith(c)

Done(next) == IF next = "Exit" THEN "Exited" ELSE "Select"

\* ------------------------------------------------------------------ discipline
SelectInput ==
  /\ pc = "Select" /\ inq # <<>>
  /\ inq' = Tail(inq)
  /\ IF unreleased
     THEN UNCHANGED <<join, oldestAt, pc, after, viol>>
     ELSE /\ join' = Append(join, Head(inq))
          /\ oldestAt' = IF join = <<>> THEN now ELSE oldestAt
          /\ viol' = IF lent /\ viol = "none" THEN "C08" ELSE viol
          /\ IF Len(join') >= J THEN pc' = "Send" /\ after' = "Select" ELSE UNCHANGED <<pc, after>>
  /\ UNCHANGED <<cfg, now, tickAt, tickPending, passAt, inClosed, written, outq, stopReq, cancelled, unreleased,
                 lent, nSent, lastId, lastPutAt>>

ToPass(next) ==
  /\ pc' = "Send" /\ after' = next
  /\ UNCHANGED <<cfg, now, tickAt, passAt, join, inq, inClosed, written, outq, stopReq, cancelled, unreleased,
                 lent, nSent, lastId, oldestAt, lastPutAt, viol>>

SelectClosed == pc = "Select" /\ inq = <<>> /\ inClosed /\ ToPass("Exit") /\ UNCHANGED tickPending
SelectHalt   == cfg.V1 /\ Halt /\ pc = "Select" /\ ToPass("Exit") /\ UNCHANGED tickPending

SelectTick ==
  /\ Timed /\ pc = "Select" /\ tickPending
  /\ tickPending' = FALSE
  /\ IF now - passAt >= T THEN ToPass("Select")
     ELSE UNCHANGED <<cfg, now, tickAt, passAt, join, inq, inClosed, written, outq, pc, after, stopReq, cancelled,
                      unreleased, lent, nSent, lastId, oldestAt, lastPutAt, viol>>

PassSkip ==
  /\ pc = "Send" /\ unreleased
  /\ pc' = Done(after)
  /\ UNCHANGED <<cfg, now, tickAt, tickPending, passAt, join, inq, inClosed, written, outq, after, stopReq, cancelled,
                 unreleased, lent, nSent, lastId, oldestAt, lastPutAt, viol>>

PassEmpty ==
  /\ pc = "Send" /\ ~unreleased /\ join = <<>>
  /\ passAt' = now /\ pc' = Done(after)
  /\ UNCHANGED <<cfg, now, tickAt, tickPending, join, inq, inClosed, written, outq, after, stopReq, cancelled,
                 unreleased, lent, nSent, lastId, oldestAt, lastPutAt, viol>>

Consecutive(s) == \A i \in 1..Len(s) : s[i] = s[1] + i - 1

PutViol ==
  IF viol # "none" THEN viol
  ELSE IF ~Consecutive(join) \/ Len(join) > J \/ (IF Halt THEN join[1] <= lastId ELSE join[1] # lastId + 1) THEN "C03"
  ELSE IF lent THEN "C08"
  ELSE IF Len(join) < J /\ after # "Exit" /\ ~(Timed /\ now - lastPutAt >= T) THEN "C09"
  ELSE IF Regime = "ready" /\ Timed /\ ~Halt /\ now - oldestAt > T + I THEN "C10"
  ELSE "none"

SendPut ==
  /\ pc = "Send" /\ ~unreleased /\ join # <<>> /\ Len(outq) < OutCap
  /\ outq' = Append(outq, [elems |-> join, mem |-> IF cfg.NoCopy THEN BufMem ELSE nSent + 1])
  /\ nSent' = nSent + 1 /\ lastId' = join[Len(join)] /\ lastPutAt' = now
  /\ viol' = PutViol
  /\ IF cfg.NoCopy
     THEN pc' = "RelWait" /\ lent' = TRUE /\ UNCHANGED <<join, passAt>>
     ELSE join' = <<>> /\ passAt' = now /\ pc' = Done(after) /\ UNCHANGED lent
  /\ UNCHANGED <<cfg, now, tickAt, tickPending, inq, inClosed, written, after, stopReq, cancelled, unreleased, oldestAt>>

SendHalt ==
  /\ cfg.V1 /\ Halt /\ pc = "Send" /\ ~unreleased /\ join # <<>>
  /\ join' = <<>> /\ passAt' = now /\ pc' = Done(after)
  /\ UNCHANGED <<cfg, now, tickAt, tickPending, inq, inClosed, written, outq, after, stopReq, cancelled, unreleased,
                 lent, nSent, lastId, oldestAt, lastPutAt, viol>>

Released ==   \* the consumer's Release() / write to Released meets the discipline's receive
  /\ pc = "RelWait"
  /\ join' = <<>> /\ passAt' = now /\ lent' = FALSE /\ pc' = Done(after)
  /\ UNCHANGED <<cfg, now, tickAt, tickPending, inq, inClosed, written, outq, after, stopReq, cancelled, unreleased,
                 nSent, lastId, oldestAt, lastPutAt, viol>>

RelHalt ==
  /\ cfg.V1 /\ Halt /\ pc = "RelWait"
  /\ unreleased' = TRUE /\ passAt' = now /\ pc' = Done(after)
  /\ UNCHANGED <<cfg, now, tickAt, tickPending, join, inq, inClosed, written, outq, after, stopReq, cancelled,
                 lent, nSent, lastId, oldestAt, lastPutAt, viol>>

Disc == SelectInput \/ SelectClosed \/ SelectHalt \/ SelectTick \/ PassSkip \/ PassEmpty \/ SendPut \/ SendHalt \/ RelHalt

\* ------------------------------------------------------------------ time
TickFire ==
  /\ Timed /\ now = tickAt /\ pc # "Exited"
  /\ tickPending' = TRUE /\ tickAt' = tickAt + I
  /\ UNCHANGED <<cfg, now, passAt, join, inq, inClosed, written, outq, pc, after, stopReq, cancelled, unreleased,
                 lent, nSent, lastId, oldestAt, lastPutAt, viol>>

ConsumerRecv ==
  /\ outq # <<>> /\ outq' = Tail(outq)
  /\ UNCHANGED <<cfg, now, tickAt, tickPending, passAt, join, inq, inClosed, written, pc, after, stopReq, cancelled,
                 unreleased, lent, nSent, lastId, oldestAt, lastPutAt, viol>>

Quiet == ~ENABLED Disc /\ ~ENABLED TickFire
ConsumerIdle == ~ENABLED ConsumerRecv /\ ~ENABLED Released

Advance(d) ==
  /\ d >= 1 /\ now + d <= Horizon
  /\ (Timed /\ pc # "Exited") => now + d <= tickAt
  /\ Regime \in {"urgent", "ready"} => Quiet
  /\ Regime = "ready" => ConsumerIdle
  /\ now' = now + d
  /\ UNCHANGED <<cfg, tickAt, tickPending, passAt, join, inq, inClosed, written, outq, pc, after, stopReq, cancelled,
                 unreleased, lent, nSent, lastId, oldestAt, lastPutAt, viol>>

\* ------------------------------------------------------------------ environment
Write ==
  /\ ~inClosed /\ written < MaxItems /\ Len(inq) < InSlots
  /\ written' = written + 1 /\ inq' = Append(inq, written + 1)
  /\ UNCHANGED <<cfg, now, tickAt, tickPending, passAt, join, inClosed, outq, pc, after, stopReq, cancelled,
                 unreleased, lent, nSent, lastId, oldestAt, lastPutAt, viol>>

CloseIn ==
  /\ ~inClosed /\ (cfg.InCap = 0 => inq = <<>>)
  /\ inClosed' = TRUE
  /\ UNCHANGED <<cfg, now, tickAt, tickPending, passAt, join, inq, written, outq, pc, after, stopReq, cancelled,
                 unreleased, lent, nSent, lastId, oldestAt, lastPutAt, viol>>

Stop ==
  /\ cfg.V1 /\ ~stopReq /\ stopReq' = TRUE
  /\ UNCHANGED <<cfg, now, tickAt, tickPending, passAt, join, inq, inClosed, written, outq, pc, after, cancelled,
                 unreleased, lent, nSent, lastId, oldestAt, lastPutAt, viol>>

Cancel ==
  /\ cfg.V1 /\ ~cancelled /\ cancelled' = TRUE
  /\ UNCHANGED <<cfg, now, tickAt, tickPending, passAt, join, inq, inClosed, written, outq, pc, after, stopReq,
                 unreleased, lent, nSent, lastId, oldestAt, lastPutAt, viol>>

Env == Write \/ CloseIn \/ ConsumerRecv \/ Released \/ Stop \/ Cancel

Next == Disc \/ TickFire \/ Advance(1) \/ Env
Spec == Init /\ [][Next]_vars
\* the discipline alone is fair; the environment (producer, consumer, release, clock) owes nothing
FairSpec == Spec /\ WF_vars(Disc)

\* ------------------------------------------------------------------ properties
NoViol == viol = "none"

TypeOK ==
  /\ pc \in {"Select", "Send", "RelWait", "Exited"} /\ after \in {"Select", "Exit"}
  /\ Len(join) <= J /\ Len(outq) <= OutCap /\ Len(inq) <= InSlots
  /\ (unreleased => cfg.V1 /\ cfg.NoCopy /\ Halt /\ lent) /\ (pc = "RelWait" => lent /\ cfg.NoCopy)

\* C03 as a conservation invariant: what is still inside plus what is still in the input continues the delivered prefix
C03_Rest ==
  ~Halt => LET rest == (IF lent THEN <<>> ELSE join) \o inq
           IN /\ rest = [i \in 1..Len(rest) |-> lastId + i]
              /\ lastId + Len(rest) = written
              /\ (pc = "Exited" => lastId = written /\ inq = <<>> /\ inClosed)
\* every slice sitting in the output is well-formed
C03_Out == \A k \in 1..Len(outq) : Len(outq[k].elems) \in 1..J /\ Consecutive(outq[k].elems)
\* C08: while the consumer owns the no-copy slice the buffer holds exactly what was delivered
C08_Frozen == lent => (join # <<>> /\ join[Len(join)] = lastId /\ Consecutive(join))
C08_CopyFresh == ~cfg.NoCopy => \A k \in 1..Len(outq) : outq[k].mem # BufMem
\* C10 inside the discipline (ready consumer): nothing waits longer than T + I
C10_Inside == (Regime = "ready" /\ Timed /\ ~Halt /\ join # <<>> /\ pc = "Select") => now - oldestAt <= T + I
\* C16 (join clause)
StopReturned == stopReq /\ pc = "Exited"
C16_Closed == StopReturned => pc = "Exited"
C16_StopLive == Halt ~> (pc = "Exited")
C16_StaysDown == [][pc = "Exited" => pc' = "Exited" /\ (outq' = outq \/ (outq # <<>> /\ outq' = Tail(outq)))]_vars
\* action property form of C09: a short slice leaves only because of the timeout or the end of input
C09_Action == [][(nSent' = nSent + 1 /\ Len(join) < J) => (after = "Exit" \/ (Timed /\ now - lastPutAt >= T))]_vars
=============================================================================
