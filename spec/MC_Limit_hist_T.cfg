SPECIFICATION Spec
CONSTANTS
 Configs <- CfgsHistBig
 MaxItems = 6  Horizon = 8
 Urgent = FALSE  LockStep = FALSE  ReadyCons = FALSE  EagerProd = FALSE  KeepHist = TRUE
INVARIANTS TypeOK NoViol C04_Struct C04_Cum C12_Order C12_Closed C04_CumHist C04_Pairwise
CHECK_DEADLOCK FALSE
