SPECIFICATION Spec
CONSTANTS
 Configs <- CfgsQuick
 MaxItems = 7  Horizon = 4
 Urgent = TRUE  LockStep = FALSE  ReadyCons = TRUE  EagerProd = TRUE  KeepHist = TRUE
INVARIANTS TypeOK NoViol C04_Struct C04_Cum C12_Order C12_Closed C04_CumHist C04_Pairwise
CHECK_DEADLOCK FALSE
