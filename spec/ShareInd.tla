---------------------------- MODULE ShareInd ----------------------------
(* Counter abstraction of the v2 priority scheduler under SATURATION for an inductive proof of the first clause of C05 with
   Apalache: 3 priorities, SYMBOLIC HandlersQuantity h and SYMBOLIC strategic shares (any division of h the divider may have
   returned at New: non-negative, sum = h), any order and grouping of releases.

     calcTactic:  vacants = h - sum(actual); 0 -> wait for one release
                  calcTacticByAddUpToStrategic: every actual[p] <= strategic[p]  ->  tactic[p] = strategic[p] - actual[p]
                                                (picked = vacants follows from sum(strategic) = h)
                  otherwise calcTacticBase: divide the vacants among the uncrowded priorities (any result safeDivide accepts)
     prioritize:  a saturated input always has an item: the poll of a priority ends only when its tactic is used up, so the
                  redistribution of unused shares (recalcTactic) finds a remainder of 0 - this is the saturation assumption,
                  stated in the guard of EndRound
     send:        tactic[p]--, actual[p]++ ; the item is out until its release is issued ; the release is consumed later

   C05 (external reading): out[p] <= strategic[p] for every p at every instant. IndInv carries what makes it inductive:
   actual = out + fb (conservation), actual[p] <= strategic[p], and actual[p] + tactic[p] <= strategic[p] while a round runs.
   The base path is part of Next (arbitrary division) but is disabled in every state of IndInv - that it is never needed under
   saturation is part of what the induction shows.

   Twins (lib/prio.py, each must yield a counter-example): top-up computed without subtracting what is already in flight
   (seeded change C05-a), the crowded test of the add-up path weakened so the base path divides the vacants freely
   (C01-e / C05 family), send without consuming the tactical share. *)
EXTENDS Integers

Prios == {1, 2, 3}

VARIABLES
  \* @type: Int;
  h,
  \* @type: Int -> Int;
  strategic,
  \* @type: Str;
  pc,
  \* @type: Int -> Int;
  actual,
  \* @type: Int -> Int;
  tactic,
  \* @type: Int -> Int;
  out,
  \* @type: Int -> Int;
  fb

\* @type: (Int -> Int) => Int;
Sum(f) == f[1] + f[2] + f[3]
\* @type: (Int -> Int) => Bool;
Nat3(f) == f[1] >= 0 /\ f[2] >= 0 /\ f[3] >= 0
Zero == [p \in Prios |-> 0]

Init ==
  /\ h \in Int /\ h > 0
  /\ strategic \in [Prios -> Int] /\ Nat3(strategic) /\ Sum(strategic) = h
  /\ pc = "Calc" /\ actual = Zero /\ tactic = Zero /\ out = Zero /\ fb = Zero

Crowded == \E p \in Prios : actual[p] > strategic[p]

Calc ==
  /\ pc = "Calc"
  /\ LET vac == h - Sum(actual) IN
     \/ /\ vac = 0 /\ pc' = "WaitFb" /\ UNCHANGED tactic
     \/ /\ vac > 0 /\ ~Crowded                                         \* calcTacticByAddUpToStrategic
        /\ tactic' = [p \in Prios |-> strategic[p] - actual[p]]
        /\ pc' = "Poll"
     \/ /\ vac > 0 /\ Crowded                                          \* calcTacticBase: any division of the vacants
        /\ \E t \in [Prios -> Int] : Nat3(t) /\ Sum(t) = vac /\ tactic' = t
        /\ pc' = "Poll"
  /\ UNCHANGED <<h, strategic, actual, out, fb>>

Send ==        \* one item of a saturated input: read, tactic--, actual++, handed out
  /\ pc = "Poll"
  /\ \E p \in Prios :
       /\ tactic[p] > 0
       /\ tactic' = [tactic EXCEPT ![p] = @ - 1]
       /\ actual' = [actual EXCEPT ![p] = @ + 1]
       /\ out' = [out EXCEPT ![p] = @ + 1]
  /\ UNCHANGED <<h, strategic, pc, fb>>

EndRound ==    \* saturation: the round ends only when every tactical share is used up
  /\ pc = "Poll" /\ Sum(tactic) = 0
  /\ pc' \in {"LimFb", "Calc"}
  /\ UNCHANGED <<h, strategic, actual, tactic, out, fb>>

FbRead ==      \* getOneFeedback / getLimitedFeedback
  /\ pc \in {"WaitFb", "LimFb"}
  /\ \E p \in Prios :
       /\ fb[p] > 0
       /\ fb' = [fb EXCEPT ![p] = @ - 1] /\ actual' = [actual EXCEPT ![p] = @ - 1]
  /\ pc' = IF pc = "WaitFb" THEN "Calc" ELSE pc
  /\ UNCHANGED <<h, strategic, tactic, out>>

LimDone == pc = "LimFb" /\ pc' = "Calc" /\ UNCHANGED <<h, strategic, actual, tactic, out, fb>>

Release ==     \* environment: a handler issues Release(p) - any order, any grouping
  /\ \E p \in Prios : out[p] > 0 /\ out' = [out EXCEPT ![p] = @ - 1] /\ fb' = [fb EXCEPT ![p] = @ + 1]
  /\ UNCHANGED <<h, strategic, pc, actual, tactic>>

Next == Calc \/ Send \/ EndRound \/ FbRead \/ LimDone \/ Release

\* ---------------------------------------------------------------- properties
C05_Share == \A p \in Prios : out[p] <= strategic[p]

IndInv ==
  /\ h > 0
  /\ strategic \in [Prios -> Int] /\ Nat3(strategic) /\ Sum(strategic) = h
  /\ pc \in {"Calc", "WaitFb", "Poll", "LimFb"}
  /\ actual \in [Prios -> Int] /\ tactic \in [Prios -> Int] /\ out \in [Prios -> Int] /\ fb \in [Prios -> Int]
  /\ Nat3(actual) /\ Nat3(tactic) /\ Nat3(out) /\ Nat3(fb)
  /\ \A p \in Prios : actual[p] = out[p] + fb[p]
  /\ \A p \in Prios : actual[p] <= strategic[p]
  /\ (pc = "Poll" => \A p \in Prios : actual[p] + tactic[p] <= strategic[p])
  /\ C05_Share

IndInit ==
  /\ h \in Int /\ strategic \in [Prios -> Int]
  /\ pc \in {"Calc", "WaitFb", "Poll", "LimFb"}
  /\ actual \in [Prios -> Int] /\ tactic \in [Prios -> Int] /\ out \in [Prios -> Int] /\ fb \in [Prios -> Int]
  /\ IndInv
=========================================================================
