SPECIFICATION Spec
CONSTANTS
 Configs <- CfgsHist
 MaxItems = 5  Horizon = 7
 Urgent = FALSE  LockStep = FALSE  ReadyCons = FALSE  EagerProd = FALSE  KeepHist = TRUE
INVARIANTS C04_PairTight
CHECK_DEADLOCK FALSE
