SPECIFICATION Spec
CONSTANTS Configs <- UTiny  Lens <- L2  MaxSlices = 3  MaxItems = 4  Horizon = 2  Regime = "urgent"
INVARIANTS NoViol
VIEW View
CHECK_DEADLOCK FALSE
