INIT Init
NEXT Next
INVARIANTS C14_v1 C14_v2 C14_same Conf_v1 Conf_v2
CHECK_DEADLOCK FALSE
