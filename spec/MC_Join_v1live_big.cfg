SPECIFICATION FairSpec
CONSTANTS Configs <- V1Small  MaxItems = 3  Horizon = 6  Regime = "free"
INVARIANTS NoViol
PROPERTIES C16_StopLive
CHECK_DEADLOCK FALSE
