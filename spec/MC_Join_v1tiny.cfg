SPECIFICATION Spec
CONSTANTS Configs <- V1Tiny  MaxItems = 2  Horizon = 2  Regime = "urgent"
INVARIANTS NoViol
VIEW View
CHECK_DEADLOCK FALSE
