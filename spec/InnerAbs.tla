------------------------------ MODULE InnerAbs ------------------------------
(* What the simplified discipline relies on from the inner priority discipline - the abstraction SimpleV1.tla uses for it,
   stated on its own so that it can be CHECKED against the detailed specification: PrioV1_Refines.tla instantiates this module
   with a refinement mapping over the variables of PrioV1 and TLC checks  PrioV1!Spec => InnerAbs!Spec  (every step of the detailed
   scheduler is a step of this abstraction or a stuttering step).

   The inner discipline hands out at most H unreleased items while it runs, only items that were written; it exits at once on a
   stop request (or a divider fault), and on a graceful request only when every input is closed, everything written was handed out
   and everything handed out was fed back. *)
EXTENDS Integers

CONSTANT H

VARIABLES inner,          \* "run" | "exited"
          stopped, grace,  \* requests (stop / cancellation / fault; graceful stop)
          written, closedIn, handed, dropped, inflight, outn, fbn
avars == <<inner, stopped, grace, written, closedIn, handed, dropped, inflight, outn, fbn>>

\* v2 has no stop and is "graceful" from the start: grace may be TRUE initially
Init == /\ inner = "run" /\ stopped = FALSE /\ grace \in BOOLEAN /\ written = 0 /\ closedIn = FALSE
        /\ handed = 0 /\ dropped = 0 /\ inflight = 0 /\ outn = 0 /\ fbn = 0

Send ==    /\ inner = "run" /\ inflight < H /\ handed + dropped < written
           /\ handed' = handed + 1 /\ inflight' = inflight + 1 /\ outn' = outn + 1
           /\ UNCHANGED <<inner, stopped, grace, written, closedIn, dropped, fbn>>
Drop ==    \* an item already taken from its input is dropped when a stop interrupts the write to the output
           /\ inner = "run" /\ stopped /\ handed + dropped < written /\ dropped' = dropped + 1
           /\ UNCHANGED <<inner, stopped, grace, written, closedIn, handed, inflight, outn, fbn>>
Fb ==      /\ inner = "run" /\ fbn > 0 /\ inflight > 0 /\ fbn' = fbn - 1 /\ inflight' = inflight - 1
           /\ UNCHANGED <<inner, stopped, grace, written, closedIn, handed, dropped, outn>>
Exit ==    /\ inner = "run"
           /\ stopped \/ (grace /\ closedIn /\ handed = written /\ inflight = 0)
           /\ inner' = "exited"
           /\ UNCHANGED <<stopped, grace, written, closedIn, handed, dropped, inflight, outn, fbn>>
\* environment
Write ==   /\ ~closedIn /\ written' = written + 1 /\ UNCHANGED <<inner, stopped, grace, closedIn, handed, dropped, inflight, outn, fbn>>
Close ==   /\ ~closedIn /\ closedIn' = TRUE /\ UNCHANGED <<inner, stopped, grace, written, handed, dropped, inflight, outn, fbn>>
ReqStop == /\ ~stopped /\ stopped' = TRUE /\ UNCHANGED <<inner, grace, written, closedIn, handed, dropped, inflight, outn, fbn>>
ReqGrace == /\ ~grace /\ grace' = TRUE /\ UNCHANGED <<inner, stopped, written, closedIn, handed, dropped, inflight, outn, fbn>>
Take ==    /\ outn > 0 /\ outn' = outn - 1 /\ UNCHANGED <<inner, stopped, grace, written, closedIn, handed, dropped, inflight, fbn>>
Release == /\ fbn' = fbn + 1 /\ UNCHANGED <<inner, stopped, grace, written, closedIn, handed, dropped, inflight, outn>>

Next == Send \/ Drop \/ Fb \/ Exit \/ Write \/ Close \/ ReqStop \/ ReqGrace \/ Take \/ Release
Spec == Init /\ [][Next]_avars
Capacity == inflight <= H
=============================================================================
