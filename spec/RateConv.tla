------------------------------ MODULE RateConv ------------------------------
(* v2/limit/rate.go: Rate.Recalculate(minimum) (hence Flatten = Recalculate(0), Optimize =
   Recalculate(10ms)) as integer arithmetic, and the postcondition the property C13 states.
   Written so that both TLC (small MaxU / MaxI so the overflow branch is reachable) and Apalache
   (MaxU = 2^64-1, MaxI = 2^63-1, unbounded integers) can evaluate it. *)
EXTENDS Integers

\* @type: (Int, Int) => Bool;
ValidRate(i, q) == i > 0 /\ q > 0

\* branch 1 of the code after the F1 repair: the per-element interval is at least the minimum (and not zero)
\* @type: (Int, Int, Int) => Bool;
Branch1(i, q, m) == (i \div q) >= m /\ (i \div q) # 0
\* the branch condition of the pinned tree (kept for the regression check of F1): strictly greater
\* @type: (Int, Int, Int) => Bool;
Branch1Pinned(i, q, m) == (i \div q) > m

\* @type: (Int, Int, Int) => Int;
ResI(i, q, m) == IF Branch1(i, q, m) THEN i \div q ELSE m
\* @type: (Int, Int, Int) => Int;
ResQ(i, q, m) == IF Branch1(i, q, m) THEN 1 ELSE (q * m) \div i
\* error cases for a valid rate and m >= 0: converted interval zero (m = 0), quantity unrepresentable
\* @type: (Int, Int, Int, Int) => Bool;
IsErr(i, q, m, maxU) == ~Branch1(i, q, m) /\ (m = 0 \/ ResQ(i, q, m) > maxU)

\* ---- the property, for an arbitrary successful result (ri, rq) of Recalculate(i, q, m):
\* valid; Interval >= minimum; Quantity = 1 unless Interval = minimum;
\* not faster by a nanosecond of interval or more:   rq/ri <= q/i  or, with rq = 1, ri > i/q - 1
\* not slower by one element per interval or more:   rq/ri >  q/i - 1/ri   <=>  (rq + 1) * i > q * ri
\* @type: (Int, Int, Int, Int, Int) => Bool;
Post(i, q, m, ri, rq) ==
  /\ ri > 0 /\ rq > 0
  /\ ri >= m
  /\ (rq # 1 => ri = m)
  /\ (rq + 1) * i > q * ri
  /\ (rq * i <= q * ri \/ (rq = 1 /\ (ri + 1) * q > i))
\* an error may be returned only for: converted interval zero with minimum 0, or unrepresentable quantity
\* (invalid rate / negative minimum are outside this operator's domain)
\* @type: (Int, Int, Int, Int) => Bool;
ErrAllowed(i, q, m, maxU) == (m = 0 /\ i \div q = 0) \/ (m > 0 /\ (q * m) \div i > maxU)
=============================================================================
