--------------------------- MODULE PrioV1_Refines ---------------------------
(* Refinement check: the detailed specification of the v1 scheduler (PrioV1.tla, static inputs) implements the abstraction of the
   inner discipline that SimpleV1.tla is built on (InnerAbs.tla).  TLC checks the temporal property AbsSpec on PrioV1's behaviours. *)
EXTENDS PrioV1

SumC(f) == LET F[i \in 0..NC] == IF i = 0 THEN 0 ELSE F[i - 1] + f[i] IN F[NC]
Registered == {chanOf[prios[i]] : i \in 1..Len(prios)} \ {0}

Abs == INSTANCE InnerAbs WITH
  inner    <- IF pc = "Closed" THEN "exited" ELSE "run",
  stopped  <- stopReq \/ ctxDone \/ bad,
  grace    <- graceReq,
  written  <- SumC(written),
  closedIn <- \A c \in Chans : closed[c],
  handed   <- Len(outq) + SumC(recvd),
  dropped  <- SumC(lost),
  inflight <- SumU(actual),
  outn     <- Len(outq),
  fbn      <- Len(fbq) + Len(pendq)

AbsSpec == Abs!Spec
AbsCapacity == Abs!Capacity

\* vacuity twin: the same mapping into an abstraction with one handler less must NOT be implemented
AbsTight == INSTANCE InnerAbs WITH
  H <- H - 1,
  inner    <- IF pc = "Closed" THEN "exited" ELSE "run",
  stopped  <- stopReq \/ ctxDone \/ bad,
  grace    <- graceReq,
  written  <- SumC(written),
  closedIn <- \A c \in Chans : closed[c],
  handed   <- Len(outq) + SumC(recvd),
  dropped  <- SumC(lost),
  inflight <- SumU(actual),
  outn     <- Len(outq),
  fbn      <- Len(fbq) + Len(pendq)
AbsTightSpec == AbsTight!Spec
=============================================================================
