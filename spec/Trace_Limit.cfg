SPECIFICATION TSpec
CONSTANTS
 Configs = {}
 MaxItems = 1000000  Horizon = 100000000
 Urgent = TRUE  LockStep = TRUE  ReadyCons = FALSE  EagerProd = FALSE  KeepHist = FALSE
INVARIANTS NoViol C04_Struct C04_Cum C12_Order C12_Closed
CONSTRAINT Mark
POSTCONDITION Report
CHECK_DEADLOCK FALSE
