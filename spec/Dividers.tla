------------------------------ MODULE Dividers ------------------------------
(* The two dividers of cqos (v2/priority/divider/divider.go, priority/divider.go) as operators.
   A priority list is a sequence sorted from highest to lowest; a "distribution" is a function
   from a finite set of keys (priorities) to Nat; increments are sequences aligned with the list.

   Fair : base = d \div n to everybody, the first (d % n) priorities get one more.
   Rate : part_i = Round(d * p_i / S) taken from a running remainder; when the remainder is smaller
          than the part the rest of the remainder goes to that priority and every later priority
          gets nothing (an explicit zero entry after the F2 repair); what is left after the loop
          goes to the first priority.  The code rounds a float product (math.Round); the float
          result can differ from exact half-up rounding only at exact ties 2*d*p = (2k+1)*S, so the
          set of admissible outcomes lets every exact tie go either way (RateOutcomes). *)
EXTENDS Integers, Sequences, FiniteSets

SumSeq(s) == LET F[i \in 0..Len(s)] == IF i = 0 THEN 0 ELSE F[i-1] + s[i] IN F[Len(s)]
SeqRange(s) == {s[i] : i \in 1..Len(s)}
Get(f, k) == IF k \in DOMAIN f THEN f[k] ELSE 0
IsSortedDesc(s) == \A i \in 1..Len(s)-1 : s[i] > s[i+1]

\* ---------------------------------------------------------------- Fair
FairInc(ps, d) ==
  LET n == Len(ps)  base == d \div n  rem == d - base * n
  IN [i \in 1..n |-> base + (IF i <= rem THEN 1 ELSE 0)]

\* ---------------------------------------------------------------- Rate
RoundHalfUp(a, b) == (2 * a + b) \div (2 * b)        \* Round(a / b), exact ties upwards
IsTie(a, b) == (2 * a + b) % (2 * b) = 0             \* a / b = k + 1/2 exactly

\* deterministic version (ties up): increments and the number of list positions written by the loop
RECURSIVE RateLoop(_, _, _, _, _, _)
RateLoop(ps, i, d, S, rem, acc) ==
  IF i > Len(ps) THEN [acc EXCEPT ![1] = @ + rem]
  ELSE LET part == RoundHalfUp(d * ps[i], S) IN
       IF rem < part THEN [acc EXCEPT ![i] = rem]
       ELSE RateLoop(ps, i + 1, d, S, rem - part, [acc EXCEPT ![i] = part])
RateInc(ps, d) == RateLoop(ps, 1, d, SumSeq(ps), d, [i \in 1..Len(ps) |-> 0])

\* tie-permissive set of outcomes (what a float implementation may legitimately produce)
RECURSIVE RateLoopSet(_, _, _, _, _, _)
RateLoopSet(ps, i, d, S, rem, acc) ==
  IF i > Len(ps) THEN {[acc EXCEPT ![1] = @ + rem]}
  ELSE LET up == RoundHalfUp(d * ps[i], S)
           parts == IF IsTie(d * ps[i], S) /\ up > 0 THEN {up, up - 1} ELSE {up}
       IN UNION { IF rem < part THEN {[acc EXCEPT ![i] = rem]}
                  ELSE RateLoopSet(ps, i + 1, d, S, rem - part, [acc EXCEPT ![i] = part]) : part \in parts }
RateOutcomes(ps, d) == RateLoopSet(ps, 1, d, SumSeq(ps), d, [i \in 1..Len(ps) |-> 0])

\* ---------------------------------------------------------------- as distributions
\* apply an increment sequence to a distribution (keys of ps are created when missing)
Apply(ps, inc, dist) ==
  [k \in (DOMAIN dist) \cup SeqRange(ps) |->
     Get(dist, k) + (IF k \in SeqRange(ps) THEN inc[CHOOSE i \in 1..Len(ps) : ps[i] = k] ELSE 0)]
Fair(ps, d, dist) == IF ps = <<>> THEN dist ELSE Apply(ps, FairInc(ps, d), dist)
Rate(ps, d, dist) == IF ps = <<>> THEN dist ELSE Apply(ps, RateInc(ps, d), dist)

\* ---------------------------------------------------------------- the property (C14), on ANY result
\* inc = observed increments of the listed priorities
IncOf(ps, pre, res) == [i \in 1..Len(ps) |-> Get(res, ps[i]) - Get(pre, ps[i])]

Conserves(ps, d, pre, res) ==
  /\ \A i \in 1..Len(ps) : Get(res, ps[i]) >= Get(pre, ps[i])
  /\ SumSeq(IncOf(ps, pre, res)) = d
UntouchedElse(ps, pre, res) ==
  /\ \A k \in DOMAIN pre : k \notin SeqRange(ps) => k \in DOMAIN res /\ res[k] = pre[k]
  /\ \A k \in DOMAIN res : k \notin SeqRange(ps) => k \in DOMAIN pre
NonIncreasing(inc) == \A i \in 1..Len(inc)-1 : inc[i] >= inc[i+1]
FairShape(inc) == NonIncreasing(inc) /\ \A i, j \in 1..Len(inc) : inc[i] - inc[j] <= 1 /\ inc[j] - inc[i] <= 1
\* |inc_i - d*p_i/S| <= n/2   <=>   |2*S*inc_i - 2*d*p_i| <= n*S
RateClose(ps, d, inc) ==
  LET S == SumSeq(ps)  n == Len(ps)
  IN \A i \in 1..n : LET x == 2 * S * inc[i] - 2 * d * ps[i] IN x <= n * S /\ -x <= n * S
RateShape(ps, d, inc) == NonIncreasing(inc) /\ RateClose(ps, d, inc)

\* Theorems about the spec operators themselves (checked by TLC over a small exhaustive domain, MC_Dividers)
FairTheorem(ps, d) == LET inc == FairInc(ps, d) IN SumSeq(inc) = d /\ FairShape(inc)
RateTheorem(ps, d) == \A inc \in RateOutcomes(ps, d) :
                         SumSeq(inc) = d /\ RateShape(ps, d, inc) /\ \A i \in 1..Len(inc) : inc[i] >= 0
=============================================================================
