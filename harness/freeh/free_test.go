// Package freeh: free-running (real goroutines, real clock, -race) stress of the join / unite / limit disciplines for the
// cross-cutting properties C19 (all goroutines end) and C20 (no data races on library or user-visible data).
// Consumers keep and MODIFY copy-mode slices, producers keep READING the slices they sent (unite), Stop/cancel come from
// another goroutine (v1 join).  Content checks are deliberately minimal here (they belong to the join/limit engines).
package freeh

import (
	"context"
	"math/rand"
	"os"
	"runtime"
	"strconv"
	"strings"
	"sync"
	"testing"
	"time"

	v1join "github.com/akramarenkov/cqos/join"
	"github.com/akramarenkov/cqos/v2/join"
	"github.com/akramarenkov/cqos/v2/join/unite"
	"github.com/akramarenkov/cqos/v2/limit"
)

func envInt(name string, def int) int {
	if v, err := strconv.Atoi(os.Getenv(name)); err == nil {
		return v
	}
	return def
}

func moduleGoroutines() (int, string) {
	buf := make([]byte, 1<<20)
	n := runtime.Stack(buf, true)
	cnt, sample := 0, ""
	for _, g := range strings.Split(string(buf[:n]), "\n\n") {
		if strings.Contains(g, "github.com/akramarenkov/cqos") && !strings.Contains(g, "moduleGoroutines") {
			cnt++
			sample = g
		}
	}
	return cnt, sample
}

func noLeak(t *testing.T, what string) {
	n, sample := moduleGoroutines()
	for d := 50 * time.Microsecond; n > 0 && d < 2*time.Second; d *= 2 {
		time.Sleep(d)
		n, sample = moduleGoroutines()
	}
	if n > 0 {
		t.Errorf("LEAK %s: %d goroutine(s) of the library remain 2s after termination:\n%s", what, n, sample)
	}
}

var timeouts = []time.Duration{0, 200 * time.Microsecond, 2 * time.Millisecond}

func TestFreeJoinV2(t *testing.T) {
	rnd := rand.New(rand.NewSource(int64(envInt("VERIF_SEED", 1))*31 + 1))
	runs := 0
	for i := 0; i < envInt("FREE_RUNS", 60); i++ {
		noCopy := rnd.Intn(3) == 0
		in := make(chan int, rnd.Intn(4))
		d, err := join.New(join.Opts[int]{Input: in, JoinSize: uint(1 + rnd.Intn(5)), NoCopy: noCopy, Timeout: timeouts[rnd.Intn(3)], TimeoutInaccuracy: uint(1 + rnd.Intn(100))})
		if err != nil {
			continue
		}
		n := rnd.Intn(300)
		var wg sync.WaitGroup
		wg.Add(1)
		go func() {
			defer wg.Done()
			for k := 1; k <= n; k++ {
				in <- k
				if k%37 == 0 {
					time.Sleep(300 * time.Microsecond)
				}
			}
			close(in)
		}()
		var kept [][]int
		sum := 0
		for s := range d.Output() {
			for j := range s {
				sum += s[j]
			}
			if noCopy {
				d.Release()
				continue
			}
			kept = append(kept, s)
			for _, old := range kept { // the consumer owns copy-mode slices for ever: scribble
				old = old[:cap(old)] // ... including the spare capacity behind it (what append() would write into)
				for j := range old {
					old[j] = -1
				}
			}
		}
		wg.Wait()
		if sum != n*(n+1)/2 {
			t.Errorf("join v2: sum of delivered elements %d, written %d", sum, n*(n+1)/2)
		}
		noLeak(t, "join v2")
		runs++
	}
	t.Logf("FREEJOIN runs=%d", runs)
}

func TestFreeUnite(t *testing.T) {
	rnd := rand.New(rand.NewSource(int64(envInt("VERIF_SEED", 1))*31 + 2))
	runs := 0
	for i := 0; i < envInt("FREE_RUNS", 60); i++ {
		noCopy := rnd.Intn(3) == 0
		js := 1 + rnd.Intn(5)
		in := make(chan []int, rnd.Intn(4))
		d, err := unite.New(unite.Opts[int]{Input: in, JoinSize: uint(js), NoCopy: noCopy, Timeout: timeouts[rnd.Intn(3)], TimeoutInaccuracy: uint(1 + rnd.Intn(100))})
		if err != nil {
			continue
		}
		n := rnd.Intn(120)
		lens := make([]int, n)
		for k := range lens {
			lens[k] = []int{0, 1, js - 1, js, js + 1, 2 * js}[rnd.Intn(6)]
			if lens[k] < 0 {
				lens[k] = 0
			}
		}
		var wg sync.WaitGroup
		wg.Add(1)
		go func() {
			defer wg.Done()
			var sent [][]int
			next := 1
			for k := 0; k < n; k++ {
				s := make([]int, lens[k], lens[k]+rnd.Intn(3))
				for j := range s {
					s[j] = next
					next++
				}
				in <- s
				if !noCopy { // in copy mode the producer still owns what it sent: it may go on reading it
					sent = append(sent, s)
					chk := 0
					for _, old := range sent {
						for _, x := range old {
							chk += x
						}
					}
					_ = chk
				}
			}
			close(in)
		}()
		var kept [][]int
		for s := range d.Output() {
			if noCopy {
				d.Release()
				continue
			}
			kept = append(kept, s)
			for _, old := range kept {
				old = old[:cap(old)] // ... including the spare capacity behind it (what append() would write into)
				for j := range old {
					old[j] = -1
				}
			}
		}
		wg.Wait()
		noLeak(t, "unite")
		runs++
	}
	t.Logf("FREEUNITE runs=%d", runs)
}

func TestFreeJoinV1(t *testing.T) {
	rnd := rand.New(rand.NewSource(int64(envInt("VERIF_SEED", 1))*31 + 3))
	runs := 0
	for i := 0; i < envInt("FREE_RUNS", 60); i++ {
		noCopy := rnd.Intn(3) == 0
		in := make(chan int, rnd.Intn(4))
		var released chan struct{}
		if noCopy {
			released = make(chan struct{})
		}
		ctx, cancel := context.WithCancel(context.Background())
		to := timeouts[rnd.Intn(3)]
		if to != 0 && to < time.Millisecond {
			to = 5 * time.Millisecond // v1 rejects timeouts whose check interval is not reliably measurable
		}
		d, err := v1join.New(v1join.Opts[int]{Ctx: ctx, Input: in, JoinSize: uint(1 + rnd.Intn(5)), Released: released, Timeout: to, TimeoutInaccuracy: uint(25 + rnd.Intn(76))})
		if err != nil {
			cancel()
			continue
		}
		n := rnd.Intn(300)
		ending := rnd.Intn(3) // 0 close input, 1 Stop, 2 cancel then Stop
		quit := make(chan struct{})
		var wg sync.WaitGroup
		wg.Add(1)
		go func() {
			defer wg.Done()
			for k := 1; k <= n; k++ {
				select {
				case in <- k:
				case <-quit:
					return
				}
			}
			if ending == 0 {
				close(in)
			}
		}()
		if ending != 0 {
			wg.Add(1)
			go func() {
				defer wg.Done()
				time.Sleep(time.Duration(rnd.Intn(400)) * time.Microsecond)
				if ending == 2 {
					cancel()
				}
				d.Stop()
			}()
		}
		var kept [][]int
		last := 0
		for s := range d.Output() {
			for _, x := range s {
				if x <= last {
					t.Errorf("join v1: delivered %d after %d (not an in-order duplicate-free subsequence)", x, last)
				}
				last = x
			}
			if noCopy {
				for j := range s { // until it signals the release the slice is the consumer's: it writes into it
					s[j] = -s[j]
				}
				select {
				case released <- struct{}{}:
				case <-time.After(20 * time.Millisecond): // the discipline was stopped before the release signal:
					kept = append(kept, s) //                   the slice stays the consumer's for good, it keeps writing into it
				}
				for _, old := range kept {
					for j := range old {
						old[j]--
					}
				}
				continue
			}
			kept = append(kept, s)
			for _, old := range kept {
				old = old[:cap(old)] // ... including the spare capacity behind it (what append() would write into)
				for j := range old {
					old[j] = -1
				}
			}
		}
		close(quit)
		wg.Wait()
		cancel()
		d.Stop()
		noLeak(t, "join v1")
		runs++
	}
	t.Logf("FREEJOINV1 runs=%d", runs)
}

// TestFreeJoinV1HeldAtStop: the consumer of a no-copy v1 join holds a slice, the discipline is stopped (or cancelled) from another
// goroutine before the release signal, the producer still has elements queued: the held slice is the consumer's for good ("never
// touched again"), it keeps writing into it while the discipline winds down.
func TestFreeJoinV1HeldAtStop(t *testing.T) {
	rnd := rand.New(rand.NewSource(int64(envInt("VERIF_SEED", 1))*31 + 5))
	runs := 0
	for i := 0; i < envInt("FREE_RUNS", 60); i++ {
		in := make(chan int, 1+rnd.Intn(4))
		released := make(chan struct{})
		ctx, cancel := context.WithCancel(context.Background())
		to := []time.Duration{0, 0, 50 * time.Millisecond}[rnd.Intn(3)]
		d, err := v1join.New(v1join.Opts[int]{Ctx: ctx, Input: in, JoinSize: uint(1 + rnd.Intn(4)), Released: released, Timeout: to})
		if err != nil {
			t.Fatal(err)
		}
		quit := make(chan struct{})
		var wg sync.WaitGroup
		wg.Add(1)
		go func() { // producer: keeps the input full
			defer wg.Done()
			for k := 1; ; k++ {
				select {
				case in <- k:
				case <-quit:
					return
				}
			}
		}()
		hold := 1 + rnd.Intn(3) // the slice that will be held
		byCancel := rnd.Intn(2) == 0
		var held []int
		n := 0
		for s := range d.Output() {
			n++
			if n < hold {
				released <- struct{}{}
				continue
			}
			if held == nil {
				held = s
				wg.Add(1)
				go func() {
					defer wg.Done()
					if byCancel {
						cancel()
					}
					d.Stop()
				}()
			}
			for j := range held { // never released: the consumer's own memory from now on
				held[j]++
			}
		}
		for k := 0; k < 50; k++ {
			for j := range held {
				held[j]++
			}
			time.Sleep(2 * time.Microsecond)
		}
		close(quit)
		wg.Wait()
		cancel()
		noLeak(t, "join v1 held at stop")
		runs++
	}
	t.Logf("FREEJOINV1HELD runs=%d", runs)
}

func TestFreeLimit(t *testing.T) {
	rnd := rand.New(rand.NewSource(int64(envInt("VERIF_SEED", 1))*31 + 4))
	runs := 0
	for i := 0; i < envInt("FREE_RUNS", 60); i++ {
		in := make(chan int, rnd.Intn(8))
		q := uint64(1 + rnd.Intn(50))
		d, err := limit.New(limit.Opts[int]{Input: in, Limit: limit.Rate{Interval: time.Duration(20+rnd.Intn(300)) * time.Microsecond, Quantity: q}})
		if err != nil {
			t.Fatal(err)
		}
		n := rnd.Intn(400)
		go func() {
			for k := 1; k <= n; k++ {
				in <- k
			}
			close(in)
		}()
		want := 1
		for x := range d.Output() {
			if x != want {
				t.Errorf("limit: got %d want %d", x, want)
			}
			want++
		}
		if want != n+1 {
			t.Errorf("limit: %d elements delivered, %d written", want-1, n)
		}
		noLeak(t, "limit")
		runs++
	}
	t.Logf("FREELIMIT runs=%d", runs)
}
