package freeh

// Real-clock runs for the timing clause of C09 in no-copy mode: the consumer HOLDS slices for about a Timeout before it
// releases them while elements keep waiting in the input.  Virtual time (testing/synctest) cannot show what depends on
// the runtime's timer-channel semantics (synctest refuses GODEBUG=asynctimerchan=1, which is what the repository's
// go.mod files select), so this recorder runs on the real clock, under both settings (the driver sets GODEBUG).
// Every inequality used is one-directional, so no slack is needed: in no-copy mode the discipline is blocked in send()
// until the release, passAt is reset after that, a timer never fires early and the consumer sees a slice no earlier than
// it was put: a SHORT (len < JoinSize), non-final slice k must satisfy
//        t_received(k) - t_just_before_release(k-1) >= Timeout.
// Records (OUT_DIR/hold.ndjson, microseconds): Reset{kind,J,T}, S{k,len,dt,final} ; judged by Mon_JoinHold.tla.

import (
	"bufio"
	"context"
	"encoding/json"
	"math/rand"
	"os"
	"path/filepath"
	"testing"
	"time"

	v1join "github.com/akramarenkov/cqos/join"
	"github.com/akramarenkov/cqos/v2/join"
)

type holdRec struct {
	Tr    int    `json:"tr"`
	Ev    string `json:"ev"`
	Kind  string `json:"kind"`
	J     int    `json:"J"`
	T     int    `json:"T"`
	K     int    `json:"k"`
	Len   int    `json:"len"`
	Dt    int    `json:"dt"`
	Final bool   `json:"final"`
}

func TestRecordHold(t *testing.T) {
	dir := os.Getenv("OUT_DIR")
	if dir == "" {
		dir = t.TempDir()
	}
	f, err := os.Create(filepath.Join(dir, "hold.ndjson"))
	if err != nil {
		t.Fatal(err)
	}
	defer f.Close()
	w := bufio.NewWriter(f)
	defer w.Flush()
	emit := func(r holdRec) {
		b, _ := json.Marshal(r)
		w.Write(b)
		w.WriteByte('\n')
	}
	rnd := rand.New(rand.NewSource(int64(envInt("VERIF_SEED", 1))*31 + 9))
	runs := envInt("HOLD_RUNS", 12)
	for run := 1; run <= runs; run++ {
		kind := []string{"join", "v1"}[run%2]
		js := 2 + rnd.Intn(4)
		to := time.Duration(20+rnd.Intn(20)) * time.Millisecond
		if kind == "v1" {
			to = time.Duration(100+rnd.Intn(50)) * time.Millisecond // v1: the ticker period must be at least 10 ms
		}
		n := 6*js + rnd.Intn(2*js)
		in := make(chan int, 1+rnd.Intn(3))
		var out <-chan []int
		var release func()
		ctx, cancel := context.WithCancel(context.Background())
		if kind == "join" {
			d, err := join.New(join.Opts[int]{Input: in, JoinSize: uint(js), NoCopy: true, Timeout: to, TimeoutInaccuracy: 25})
			if err != nil {
				cancel()
				continue
			}
			out, release = d.Output(), d.Release
		} else {
			released := make(chan struct{})
			d, err := v1join.New(v1join.Opts[int]{Ctx: ctx, Input: in, JoinSize: uint(js), Released: released, Timeout: to, TimeoutInaccuracy: 25})
			if err != nil {
				cancel()
				continue
			}
			out, release = d.Output(), func() { released <- struct{}{} }
		}
		emit(holdRec{Tr: run, Ev: "Reset", Kind: kind, J: js, T: int(to / time.Microsecond)})
		pauses := []float64{0.5, 1.5, 0, 2.2}[rnd.Intn(2):]
		go func() { // the producer: bursts, so that elements are waiting in the input while the consumer holds a slice
			for k := 1; k <= n; k++ {
				in <- k
				if k%(js+1) == 0 { // pauses shorter and longer than the timeout: short slices do occur, legitimately
					time.Sleep(time.Duration(float64(to) * pauses[(k/(js+1))%len(pauses)]))
				}
			}
			close(in)
		}()
		type got struct {
			len int
			dt  time.Duration
		}
		var seen []got
		var beforeRelease time.Time
		k := 0
		for s := range out {
			now := time.Now()
			k++
			g := got{len: len(s), dt: -1}
			if k > 1 {
				g.dt = now.Sub(beforeRelease)
			}
			seen = append(seen, g)
			// hold the slice: sometimes longer than the timeout, sometimes shorter
			time.Sleep(time.Duration(float64(to) * []float64{0, 0.3, 1.2, 1.6}[rnd.Intn(4)]))
			beforeRelease = time.Now()
			release()
		}
		cancel()
		for i, g := range seen {
			emit(holdRec{Tr: run, Ev: "S", K: i + 1, Len: g.len, Dt: int(g.dt / time.Microsecond), Final: i == len(seen)-1})
		}
	}
	t.Logf("HOLD runs=%d", runs)
}
