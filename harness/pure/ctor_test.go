package pure

import (
	"context"
	"errors"
	"testing"
	"time"

	v1join "github.com/akramarenkov/cqos/join"
	v1 "github.com/akramarenkov/cqos/priority"
	v2join "github.com/akramarenkov/cqos/v2/join"
	"github.com/akramarenkov/cqos/v2/join/unite"
	"github.com/akramarenkov/cqos/v2/limit"
	v2 "github.com/akramarenkov/cqos/v2/priority"
	"github.com/akramarenkov/cqos/v2/priority/divider"
	v2simple "github.com/akramarenkov/cqos/v2/priority/simple"
)

// Constructor calls (PureCtor.tla): the options are recorded in abstract form (which fields are set, the numbers), the
// outcome as an error identifier taken with errors.Is, and cap(Output()) where the constructor makes the channel.
// Timeouts are in nanoseconds (up to 2 s: TLC integers are 32 bit), limit intervals in milliseconds.
type ctorCall struct {
	K      string `json:"k"` // pv2 pv1 sv1 sv2 jv2 uv2 jv1 lim
	DivNil bool   `json:"divnil"`
	H      uint   `json:"h"`
	NIn    int    `json:"nin"`
	FbNil  bool   `json:"fbnil"`
	OutNil bool   `json:"outnil"`
	HdlNil bool   `json:"hdlnil"`
	InNil  bool   `json:"innil"`
	InCap  int    `json:"incap"`
	J      uint   `json:"j"`
	TNs    int64  `json:"tns"`
	Inacc  uint   `json:"inacc"`
	IMs    int64  `json:"ims"`
	Q      uint64 `json:"q"`
	Res    string `json:"res"`
	OutCap int    `json:"outcap"`
}

func ctorErr(err error) string {
	switch {
	case err == nil:
		return "ok"
	case errors.Is(err, v2.ErrDividerEmpty), errors.Is(err, v1.ErrEmptyDivider):
		return "divider"
	case errors.Is(err, v2.ErrHandlersQuantityZero), errors.Is(err, v1.ErrHandlersQuantityZero):
		return "hzero"
	case errors.Is(err, v2.ErrInputEmpty), errors.Is(err, v1.ErrEmptyInput), errors.Is(err, v2join.ErrInputEmpty),
		errors.Is(err, unite.ErrInputEmpty), errors.Is(err, v1join.ErrEmptyInput), errors.Is(err, limit.ErrInputEmpty):
		return "input"
	case errors.Is(err, v2.ErrHandlersQuantityTooSmall):
		return "toosmall"
	case errors.Is(err, v2.ErrDividerBad), errors.Is(err, v1.ErrDividerBad):
		return "bad"
	case errors.Is(err, v1.ErrEmptyFeedback):
		return "feedback"
	case errors.Is(err, v1.ErrEmptyOutput):
		return "output"
	case errors.Is(err, v1.ErrEmptyHandle), errors.Is(err, v2simple.ErrHandleEmpty):
		return "handle"
	case errors.Is(err, v2join.ErrJoinSizeZero), errors.Is(err, unite.ErrJoinSizeZero), errors.Is(err, v1join.ErrInvalidJoinSize):
		return "jzero"
	case errors.Is(err, v2join.ErrTimeoutInaccuracyTooBig), errors.Is(err, unite.ErrTimeoutInaccuracyTooBig), errors.Is(err, v1join.ErrTimeoutInaccuracyTooBig):
		return "inacc-big"
	case errors.Is(err, v2join.ErrTimeoutInaccuracyZero), errors.Is(err, unite.ErrTimeoutInaccuracyZero), errors.Is(err, v1join.ErrTimeoutInaccuracyZero):
		return "inacc-zero"
	case errors.Is(err, v2join.ErrTimeoutTooSmall), errors.Is(err, unite.ErrTimeoutTooSmall), errors.Is(err, v1join.ErrTimeoutTooSmall):
		return "t-small"
	case errors.Is(err, limit.ErrIntervalNegative):
		return "i-negative"
	case errors.Is(err, limit.ErrIntervalZero):
		return "i-zero"
	case errors.Is(err, limit.ErrQuantityZero):
		return "q-zero"
	default:
		return "other:" + err.Error()
	}
}

func closedInputs(n int) (map[uint]<-chan int, []chan int) {
	inputs := map[uint]<-chan int{}
	chans := []chan int{}
	for i := 0; i < n; i++ {
		ch := make(chan int)
		chans = append(chans, ch)
		inputs[uint(n-i)] = ch
	}
	return inputs, chans
}

func within(done <-chan struct{}) {
	select {
	case <-done:
	case <-time.After(time.Second):
		stuckDisciplines++
	}
}

func TestRecordCtor(t *testing.T) {
	out := openOut(t, "ctor_calls.ndjson")
	defer out.close()
	bools := []bool{false, true}
	// priority v2 and its simplified form
	for _, divNil := range bools {
		for _, h := range []uint{0, 1, 2, 3, 25, 40} {
			for _, nin := range []int{0, 1, 2, 3} {
				var d divider.Divider
				if !divNil {
					d = divider.Fair
				}
				inputs, chans := closedInputs(nin)
				dsc, err := v2.New(v2.Opts[int]{Divider: d, HandlersQuantity: h, Inputs: inputs})
				c := ctorCall{K: "pv2", DivNil: divNil, H: h, NIn: nin, Res: ctorErr(err)}
				if err == nil {
					c.OutCap = cap(dsc.Output())
					shutdown(dsc, chans)
				}
				out.put(c)
				for _, hdlNil := range bools {
					inputs, chans := closedInputs(nin)
					var handle v2simple.Handle[int]
					if !hdlNil {
						handle = func(int) {}
					}
					s, err := v2simple.New(v2simple.Opts[int]{Divider: d, Handle: handle, HandlersQuantity: h, Inputs: inputs})
					out.put(ctorCall{K: "sv2", DivNil: divNil, H: h, NIn: nin, HdlNil: hdlNil, Res: ctorErr(err)})
					if err == nil {
						for _, ch := range chans {
							close(ch)
						}
						done := make(chan struct{})
						go func() { <-s.Err(); close(done) }()
						within(done)
					}
				}
			}
		}
	}
	// priority v1 and its simplified form
	for _, divNil := range bools {
		for _, h := range []uint{0, 2} {
			for _, fbNil := range bools {
				for _, outNil := range bools {
					var d v1.Divider
					if !divNil {
						d = v1.FairDivider
					}
					var fb chan uint
					var o chan v1.Prioritized[int]
					if !fbNil {
						fb = make(chan uint)
					}
					if !outNil {
						o = make(chan v1.Prioritized[int])
					}
					dsc, err := v1.New(v1.Opts[int]{Divider: d, Feedback: fb, HandlersQuantity: h, Output: o})
					out.put(ctorCall{K: "pv1", DivNil: divNil, H: h, FbNil: fbNil, OutNil: outNil, Res: ctorErr(err)})
					if err == nil {
						dsc.Stop()
					}
				}
			}
			for _, hdlNil := range bools {
				for _, nin := range []int{0, 2} {
					var d v1.Divider
					if !divNil {
						d = v1.FairDivider
					}
					var handle v1.Handle[int]
					if !hdlNil {
						handle = func(context.Context, int) {}
					}
					inputs, _ := closedInputs(nin)
					s, err := v1.NewSimple(v1.SimpleOpts[int]{Divider: d, Handle: handle, HandlersQuantity: h, Inputs: inputs})
					out.put(ctorCall{K: "sv1", DivNil: divNil, H: h, NIn: nin, HdlNil: hdlNil, Res: ctorErr(err)})
					if err == nil {
						s.Stop()
					}
				}
			}
		}
	}
	// join v2, unite, join v1
	for _, inNil := range bools {
		for _, incap := range []int{0, 2} {
			for _, j := range []uint{0, 1, 3} {
				for _, tns := range []int64{-5000000, 0, 50, 1000000, 30000000, 2000000000} {
					for _, inacc := range []uint{0, 1, 20, 25, 50, 100, 101, 1000} {
						timeout := time.Duration(tns)
						var in chan int
						var ins chan []int
						if !inNil {
							in = make(chan int, incap)
							ins = make(chan []int, incap)
						}
						base := ctorCall{InNil: inNil, InCap: incap, J: j, TNs: tns, Inacc: inacc}
						{
							d, err := v2join.New(v2join.Opts[int]{Input: in, JoinSize: j, Timeout: timeout, TimeoutInaccuracy: inacc})
							c := base
							c.K, c.Res = "jv2", ctorErr(err)
							if err == nil {
								c.OutCap = cap(d.Output())
								close(in)
								for range d.Output() {
								}
								in = make(chan int, incap)
							}
							out.put(c)
						}
						{
							d, err := unite.New(unite.Opts[int]{Input: ins, JoinSize: j, Timeout: timeout, TimeoutInaccuracy: inacc})
							c := base
							c.K, c.Res = "uv2", ctorErr(err)
							if err == nil {
								c.OutCap = cap(d.Output())
								close(ins)
								for range d.Output() {
								}
							}
							out.put(c)
						}
						{
							d, err := v1join.New(v1join.Opts[int]{Input: in, JoinSize: j, Timeout: timeout, TimeoutInaccuracy: inacc})
							c := base
							c.K, c.Res = "jv1", ctorErr(err)
							if err == nil {
								c.OutCap = cap(d.Output())
								d.Stop()
							}
							out.put(c)
						}
					}
				}
			}
		}
	}
	// limit
	for _, inNil := range bools {
		for _, incap := range []int{0, 3} {
			for _, ims := range []int64{-1, 0, 1, 50} {
				for _, q := range []uint64{0, 1, 7} {
					var in chan int
					if !inNil {
						in = make(chan int, incap)
					}
					d, err := limit.New(limit.Opts[int]{Input: in, Limit: limit.Rate{Interval: time.Duration(ims) * time.Millisecond, Quantity: q}})
					c := ctorCall{K: "lim", InNil: inNil, InCap: incap, IMs: ims, Q: q, Res: ctorErr(err)}
					if err == nil {
						c.OutCap = cap(d.Output())
						close(in)
						for range d.Output() {
						}
					}
					out.put(c)
				}
			}
		}
	}
	t.Logf("RECORDED %d constructor calls", out.n)
}
