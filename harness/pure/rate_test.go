package pure

import (
	"errors"
	"fmt"
	"math"
	"math/big"
	"strconv"
	"testing"
	"time"

	"github.com/akramarenkov/cqos/v2/limit"
)

type rateCall struct {
	I   int64  `json:"i"`
	Q   uint64 `json:"q"`
	M   int64  `json:"m"`
	Err string `json:"err"`
	RI  int64  `json:"ri"`
	RQ  uint64 `json:"rq"`
	Via string `json:"via"`
}

func errName(err error) string {
	switch {
	case err == nil:
		return ""
	case errors.Is(err, limit.ErrConvertedIntervalZero):
		return "interval-zero"
	case errors.Is(err, limit.ErrConvertedQuantityUnrepresentable):
		return "unrepresentable"
	case errors.Is(err, limit.ErrIntervalNegative), errors.Is(err, limit.ErrIntervalZero), errors.Is(err, limit.ErrQuantityZero):
		return "invalid"
	case errors.Is(err, limit.ErrMinimumIntervalNegative):
		return "min-negative"
	default:
		return "other:" + err.Error()
	}
}

func recalc(i int64, q uint64, m int64) (rc rateCall) {
	defer func() { // a panic is neither of the two outcomes the property allows: recorded as an unknown error with a non-zero result
		if p := recover(); p != nil {
			rc = rateCall{I: i, Q: q, M: m, Err: "other:panic: " + fmt.Sprint(p), RI: -1, RQ: 0, Via: "recalculate"}
		}
	}()
	r, err := limit.Rate{Interval: time.Duration(i), Quantity: q}.Recalculate(time.Duration(m))
	return rateCall{I: i, Q: q, M: m, Err: errName(err), RI: int64(r.Interval), RQ: r.Quantity, Via: "recalculate"}
}

// TestRecordRateSmall: exhaustive small domain for TLC (PureRate.tla).
func TestRecordRateSmall(t *testing.T) {
	out := openOut(t, "rate_calls.ndjson")
	defer out.close()
	n := int64(envInt("RATE_N", 28))
	for i := int64(-1); i <= n; i++ {
		for q := int64(0); q <= n; q++ {
			for m := int64(-1); m <= n; m++ {
				out.put(recalc(i, uint64(q), m))
			}
		}
	}
	// wrappers agree with Recalculate(0) / Recalculate(10ms) (recorded as such, small enough for TLC)
	for i := int64(1); i <= 60; i++ {
		for q := uint64(1); q <= 30; q++ {
			r, err := limit.Rate{Interval: time.Duration(i), Quantity: q}.Flatten()
			out.put(rateCall{I: i, Q: q, M: 0, Err: errName(err), RI: int64(r.Interval), RQ: r.Quantity, Via: "flatten"})
		}
	}
	t.Logf("RECORDED rate_calls=%d", out.n)
}

type rateCallBig struct {
	I, Q, M, RI, RQ string
	Err             string
	Via             string
}

// TestRecordRateBig: seeded boundary-directed 64-bit calls, written with decimal strings; the driver turns
// them into an Apalache module (unbounded integers) that checks each against the postcondition.
func TestRecordRateBig(t *testing.T) {
	out := openOut(t, "rate_big.ndjson")
	defer out.close()
	rnd := newRand(13)
	n := envInt("RATE_BIG_N", 120)
	put := func(i int64, q uint64, m int64, via string) {
		var r limit.Rate
		var err error
		rt := limit.Rate{Interval: time.Duration(i), Quantity: q}
		panicked := ""
		func() {
			defer func() { // a panic is neither of the two outcomes the property allows: it is recorded, not fatal to the recorder
				if p := recover(); p != nil {
					panicked = fmt.Sprint(p)
				}
			}()
			switch via {
			case "optimize":
				m = int64(limit.OptimizationInterval)
				r, err = rt.Optimize()
			case "flatten":
				m = 0
				r, err = rt.Flatten()
			default:
				r, err = rt.Recalculate(time.Duration(m))
			}
		}()
		if panicked != "" {
			out.put(rateCallBig{I: strconv.FormatInt(i, 10), Q: strconv.FormatUint(q, 10), M: strconv.FormatInt(m, 10), RI: "-1", RQ: "0", Err: "panic: " + panicked, Via: via})
			return
		}
		out.put(rateCallBig{I: strconv.FormatInt(i, 10), Q: strconv.FormatUint(q, 10), M: strconv.FormatInt(m, 10),
			RI: strconv.FormatInt(int64(r.Interval), 10), RQ: strconv.FormatUint(r.Quantity, 10), Err: errName(err), Via: via})
	}
	// fixed boundary cases
	put(int64(20*time.Millisecond)+1, 2, 0, "optimize")
	put(int64(20*time.Millisecond), 2, 0, "optimize")
	put(int64(20*time.Millisecond)-1, 2, 0, "optimize")
	put(7, 2, 3, "recalculate")
	put(math.MaxInt64, math.MaxUint64, math.MaxInt64, "recalculate")
	put(math.MaxInt64, 1, math.MaxInt64, "recalculate")
	put(1, math.MaxUint64, math.MaxInt64, "recalculate")
	put(1, math.MaxUint64, 1, "recalculate")
	put(1, math.MaxUint64, 0, "flatten")
	put(math.MaxInt64, math.MaxUint64, 0, "flatten")
	for it := 0; it < n; it++ {
		var i int64
		var q uint64
		var m int64
		switch rnd.Intn(10) {
		case 0: // floor(i/q) == m, with and without remainder
			q = 1 + uint64(rnd.Int63n(1<<20))
			m = 1 + rnd.Int63n(1<<30)
			i = m*int64(q) + rnd.Int63n(int64(q))*int64(rnd.Intn(2))
		case 1: // q*m/i around 2^64
			i = 1 + rnd.Int63n(1<<20)
			m = math.MaxInt64 - rnd.Int63n(1<<40)
			q = uint64(i)*2 + uint64(rnd.Int63n(8)) - 4
		case 2:
			i, q, m = 1+rnd.Int63n(math.MaxInt64), 1+uint64(rnd.Int63()), rnd.Int63()
		case 3: // realistic: ms..s intervals, optimize
			i, q, m = int64(time.Microsecond)*(1+rnd.Int63n(5_000_000)), 1+uint64(rnd.Int63n(100000)), 0
			put(i, q, m, "optimize")
			continue
		case 4:
			i, q, m = 1+rnd.Int63n(1<<40), 1+uint64(rnd.Int63n(1<<40)), 0
			put(i, q, m, "flatten")
			continue
		case 6, 7: // q*m/i in and around the band [2^64, 2^64 + 2^64/i): the high word of the 128-bit product equals the divisor
			i = 1 + rnd.Int63n(1<<uint(1+rnd.Intn(40)))
			m = i + 1 + rnd.Int63n(1<<uint(1+rnd.Intn(60)))
			if m <= i {
				m = i + 1
			}
			two64 := new(big.Int).Lsh(big.NewInt(1), 64)
			edge := new(big.Int).Mul(big.NewInt(i+int64(rnd.Intn(2))), two64) // lower or upper edge of the band
			qq := new(big.Int).Div(edge, big.NewInt(m))
			qq.Add(qq, big.NewInt(int64(rnd.Intn(5))-1))
			if qq.Sign() <= 0 || !qq.IsUint64() {
				continue
			}
			q = qq.Uint64()
		case 8: // the same band through Optimize (minimum = OptimizationInterval)
			oi := int64(limit.OptimizationInterval)
			i = 1 + rnd.Int63n(oi)
			two64 := new(big.Int).Lsh(big.NewInt(1), 64)
			qq := new(big.Int).Div(new(big.Int).Mul(big.NewInt(i+int64(rnd.Intn(2))), two64), big.NewInt(oi))
			qq.Add(qq, big.NewInt(int64(rnd.Intn(5))-1))
			if qq.Sign() <= 0 || !qq.IsUint64() {
				continue
			}
			put(i, qq.Uint64(), 0, "optimize")
			continue
		default: // floor(i/q) = m +- 1
			q = 1 + uint64(rnd.Int63n(1000))
			m = 1 + rnd.Int63n(1<<40)
			i = (m+int64(rnd.Intn(3))-1)*int64(q) + rnd.Int63n(int64(q))
			if i <= 0 {
				i = 1
			}
		}
		put(i, q, m, "recalculate")
	}
	t.Logf("RECORDED rate_big=%d", out.n)
}
