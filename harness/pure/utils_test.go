package pure

import (
	"errors"
	"testing"
	"time"

	v1 "github.com/akramarenkov/cqos/priority"
	v2 "github.com/akramarenkov/cqos/v2/priority"
	"github.com/akramarenkov/cqos/v2/priority/divider"
	"github.com/akramarenkov/cqos/v2/priority/utils"
)

type subRow struct {
	S   []uint    `json:"s"`
	Row [][2]uint `json:"row"`
}

type helpers struct {
	ver      int
	fn       string
	nonFatal func(ps []uint, q uint) bool
	minNF    func(ps []uint, max uint) uint
	maxNF    func(ps []uint, max uint) uint
	suitable func(ps []uint, q uint, limit float64) bool
	minSuit  func(ps []uint, max uint, limit float64) uint
	maxSuit  func(ps []uint, max uint, limit float64) uint
	divide   func(s []uint, q uint) map[uint]uint
}

func allHelpers() []helpers {
	var out []helpers
	for _, fn := range []string{"fair", "rate"} {
		d1, d2 := v1.Divider(v1.FairDivider), divider.Divider(divider.Fair)
		if fn == "rate" {
			d1, d2 = v1.RateDivider, divider.Rate
		}
		out = append(out, helpers{1, fn,
			func(ps []uint, q uint) bool { return v1.IsNonFatalConfig(ps, d1, q) },
			func(ps []uint, m uint) uint { return v1.PickUpMinNonFatalQuantity(ps, d1, m) },
			func(ps []uint, m uint) uint { return v1.PickUpMaxNonFatalQuantity(ps, d1, m) },
			func(ps []uint, q uint, l float64) bool { return v1.IsSuitableConfig(ps, d1, q, l) },
			func(ps []uint, m uint, l float64) uint { return v1.PickUpMinSuitableQuantity(ps, d1, m, l) },
			func(ps []uint, m uint, l float64) uint { return v1.PickUpMaxSuitableQuantity(ps, d1, m, l) },
			func(s []uint, q uint) map[uint]uint { return d1(append([]uint(nil), s...), q, nil) },
		})
		out = append(out, helpers{2, fn,
			func(ps []uint, q uint) bool { return utils.IsNonFatalConfig(ps, d2, q) },
			func(ps []uint, m uint) uint { return utils.PickUpMinNonFatalQuantity(ps, d2, m) },
			func(ps []uint, m uint) uint { return utils.PickUpMaxNonFatalQuantity(ps, d2, m) },
			func(ps []uint, q uint, l float64) bool { return utils.IsSuitableConfig(ps, d2, q, l) },
			func(ps []uint, m uint, l float64) uint { return utils.PickUpMinSuitableQuantity(ps, d2, m, l) },
			func(ps []uint, m uint, l float64) uint { return utils.PickUpMaxSuitableQuantity(ps, d2, m, l) },
			func(s []uint, q uint) map[uint]uint {
				m := map[uint]uint{}
				d2(append([]uint(nil), s...), q, m)
				return m
			},
		})
	}
	return out
}

func rowsFor(h helpers, desc []uint, q uint) []subRow {
	var rows []subRow
	for _, s := range descLists(desc, len(desc)) {
		rows = append(rows, subRow{S: s, Row: pairs(h.divide(s, q))})
	}
	return rows
}

func shuffled(rnd interface{ Perm(int) []int }, ps []uint) []uint {
	out := make([]uint, len(ps))
	for i, j := range rnd.Perm(len(ps)) {
		out[i] = ps[j]
	}
	return out
}

func newResult(fn string, ps []uint, q uint) string {
	d := divider.Divider(divider.Fair)
	if fn == "rate" {
		d = divider.Rate
	}
	inputs := map[uint]<-chan int{}
	chans := []chan int{}
	for _, p := range ps {
		ch := make(chan int)
		chans = append(chans, ch)
		inputs[p] = ch
	}
	if stuckDisciplines >= maxStuck {
		return "skipped"
	}
	dsc, err := v2.New(v2.Opts[int]{Divider: d, HandlersQuantity: q, Inputs: inputs})
	switch {
	case err == nil:
		shutdown(dsc, chans)
		return "ok"
	case errors.Is(err, v2.ErrHandlersQuantityTooSmall):
		return "toosmall"
	case errors.Is(err, v2.ErrDividerBad):
		return "bad"
	case errors.Is(err, v2.ErrHandlersQuantityZero):
		return "zero"
	default:
		return "other:" + err.Error()
	}
}

// A discipline the constructor accepted is shut down by closing its (empty) inputs.  A constructor that wrongly accepts a
// configuration (say, a priority with a zero share) can produce a discipline that never terminates: the recorder must not hang on
// it (the recorded "ok" is what the specification judges), so the wait is bounded, and after maxStuck abandoned disciplines (each
// keeps polling) no further ones are created (records "skipped", ignored by the invariants).
const maxStuck = 16

var stuckDisciplines int

func shutdown(dsc *v2.Discipline[int], chans []chan int) {
	for _, ch := range chans {
		close(ch)
	}
	done := make(chan struct{})
	go func() {
		for range dsc.Output() {
		}
		<-dsc.Err()
		close(done)
	}()
	select {
	case <-done:
	case <-time.After(time.Second):
		stuckDisciplines++
	}
}

// newWithFault: v2 priority.New with a divider that mis-allocates at creation (C15: "New itself returns ErrDividerBad")
func newWithFault(fn string, ps []uint, q uint, kind string) (string, uint) {
	base := divider.Divider(divider.Fair)
	if fn == "rate" {
		base = divider.Rate
	}
	total := uint(0)
	d := func(p []uint, dd uint, dist map[uint]uint) {
		base(p, dd, dist)
		switch kind {
		case "over":
			dist[p[0]]++
		case "under":
			for _, x := range p {
				if dist[x] > 0 {
					dist[x]--
					break
				}
			}
		case "double":
			for _, x := range p {
				dist[x] *= 2
			}
		}
		total = 0
		for _, v := range dist {
			total += v
		}
	}
	inputs := map[uint]<-chan int{}
	chans := []chan int{}
	for _, p := range ps {
		ch := make(chan int)
		chans = append(chans, ch)
		inputs[p] = ch
	}
	if stuckDisciplines >= maxStuck {
		return "skipped", 0
	}
	dsc, err := v2.New(v2.Opts[int]{Divider: d, HandlersQuantity: q, Inputs: inputs})
	createTotal := total
	res := "other"
	switch {
	case err == nil:
		shutdown(dsc, chans)
		res = "ok"
	case errors.Is(err, v2.ErrDividerBad):
		res = "bad"
	case errors.Is(err, v2.ErrHandlersQuantityTooSmall):
		res = "toosmall"
	}
	return res, createTotal
}

var limitsGrid = []float64{0, 1, 5, 10, 20, 35, 50, 75, 100}

func recordUtils(out *ndjson, rnd interface {
	Perm(int) []int
	Intn(int) int
}, desc []uint, maxQ uint, withNew bool) {
	for _, h := range allHelpers() {
		given := desc
		if rnd.Intn(3) == 0 {
			given = shuffled(rnd, desc)
		}
		nf := make([]bool, 0, maxQ)
		for q := uint(0); q <= maxQ; q++ {
			res := h.nonFatal(append([]uint(nil), given...), q)
			if q >= 1 {
				nf = append(nf, res)
			}
			out.put(map[string]any{"k": "nf", "ver": h.ver, "fn": h.fn, "ps": given, "q": q, "res": res, "rows": rowsFor(h, desc, q)})
			if withNew && h.ver == 2 && q >= 1 && q%3 == 1 {
				for _, kind := range []string{"over", "under", "double"} {
					res, total := newWithFault(h.fn, desc, q, kind)
					out.put(map[string]any{"k": "newfault", "ver": 2, "fn": h.fn, "ps": desc, "q": q, "kind": kind, "total": total, "res": res})
				}
			}
			if withNew && h.ver == 2 && q >= 1 {
				out.put(map[string]any{"k": "new", "ver": 2, "fn": h.fn, "ps": desc, "q": q, "nf": res,
					"res": newResult(h.fn, desc, q), "share": pairs(h.divide(desc, q))})
			}
		}
		ms := []uint{0, 1, maxQ / 2, maxQ}
		sum := uint(0)
		for _, p := range desc {
			sum += p
		}
		for m := sum; m < maxQ && len(desc) >= 4; m++ { // every bound from the sum of the priorities upwards (sets of small values)
			ms = append(ms, m)
		}
		for _, m := range ms {
			out.put(map[string]any{"k": "pick", "ver": h.ver, "fn": h.fn, "which": "min", "ps": given, "max": m, "res": h.minNF(given, m), "nf": nf[:m]})
			out.put(map[string]any{"k": "pick", "ver": h.ver, "fn": h.fn, "which": "max", "ps": given, "max": m, "res": h.maxNF(given, m), "nf": nf[:m]})
		}
		for _, limit := range []float64{5, 20, 50} {
			suit := make([]bool, 0, maxQ)
			for q := uint(1); q <= maxQ; q++ {
				suit = append(suit, h.suitable(given, q, limit))
			}
			for _, m := range []uint{0, maxQ / 2, maxQ} {
				out.put(map[string]any{"k": "picksuit", "ver": h.ver, "fn": h.fn, "which": "min", "ps": given, "max": m, "limit": limit, "res": h.minSuit(given, m, limit), "suit": suit[:m]})
				out.put(map[string]any{"k": "picksuit", "ver": h.ver, "fn": h.fn, "which": "max", "ps": given, "max": m, "limit": limit, "res": h.maxSuit(given, m, limit), "suit": suit[:m]})
			}
		}
		for q := uint(0); q <= maxQ; q += 1 + maxQ/12 {
			res := make([]bool, len(limitsGrid))
			for j, l := range limitsGrid {
				res[j] = h.suitable(given, q, l)
			}
			out.put(map[string]any{"k": "suit", "ver": h.ver, "fn": h.fn, "ps": given, "q": q, "limits": limitsGrid, "res": res, "nf": h.nonFatal(given, q)})
		}
	}
}

var utilsUniverse = []uint{1, 2, 3, 5, 8, 13, 21, 34, 70}

// TestRecordUtils: exhaustive small domain + seeded larger sets (1..6 values <= 100, q <= 300).
func TestRecordUtils(t *testing.T) {
	out := openOut(t, "utils_calls.ndjson")
	defer out.close()
	rnd := newRand(18)
	maxN, maxQ := envInt("UTL_MAXN", 3), uint(envInt("UTL_MAXQ", 24))
	for _, desc := range descLists(utilsUniverse, maxN) {
		recordUtils(out, rnd, desc, maxQ, true)
	}
	// fixed configurations on the boundary where Rate runs out of remainder before the end of the list
	for _, fc := range []struct {
		ps []uint
		q  uint
	}{{[]uint{53, 43, 29, 13, 3}, 30}, {[]uint{7, 5, 3, 1}, 10}, {[]uint{45, 35, 25, 15, 6, 4}, 14}, {[]uint{83, 51, 30, 28, 10}, 12}} {
		recordUtils(out, rnd, fc.ps, fc.q, true)
	}
	// 5 and 6 priorities of small values, bounds from their sum to a little above it (quantities around the sum are where a subset
	// can starve although the full list is served)
	small := [][]uint{{8, 4, 3, 2, 1}, {9, 5, 4, 2, 1}, {12, 7, 5, 3, 2, 1}}
	for it := 0; it < envInt("UTL_RANDOM", 12)/3; it++ {
		k := 5 + rnd.Intn(2)
		set := map[uint]bool{}
		for len(set) < k {
			set[1+uint(rnd.Intn(12))] = true
		}
		var u []uint
		for p := range set {
			u = append(u, p)
		}
		all := descLists(u, k)
		small = append(small, all[len(all)-1])
	}
	for _, ps := range small {
		sum := uint(0)
		for _, p := range ps {
			sum += p
		}
		recordUtils(out, rnd, ps, sum+6, false)
	}
	for it := 0; it < envInt("UTL_RANDOM", 12); it++ {
		k := 1 + rnd.Intn(6)
		set := map[uint]bool{}
		for len(set) < k {
			set[1+uint(rnd.Intn(100))] = true
		}
		var u []uint
		for p := range set {
			u = append(u, p)
		}
		all := descLists(u, k)
		recordUtils(out, rnd, all[len(all)-1], uint(20+rnd.Intn(envInt("UTL_RANDOM_MAXQ", 60))), true)
	}
	t.Logf("RECORDED utils_calls=%d", out.n)
}
