package pure

import (
	"fmt"
	"math/big"
	"testing"

	v1 "github.com/akramarenkov/cqos/priority"
	"github.com/akramarenkov/cqos/v2/priority/divider"
)

type divCall struct {
	Fn     string    `json:"fn"`
	Ps     []uint    `json:"ps"`
	D      uint      `json:"d"`
	PreNil bool      `json:"prenil"`
	Pre    [][2]uint `json:"pre"`
	V1     [][2]uint `json:"v1"`
	V1Nil  bool      `json:"v1nil"`
	V1In   [][2]uint `json:"v1in"` // the distribution handed to the v1 divider, after the call ("otherwise it must be updated and returned")
	V2     [][2]uint `json:"v2"`
	V2Nil  bool      `json:"v2nil"`
}

func callDividers(fn string, ps []uint, d uint, pre map[uint]uint) divCall {
	c := divCall{Fn: fn, Ps: ps, D: d, PreNil: pre == nil, Pre: pairs(pre)}
	psV1 := append([]uint(nil), ps...)
	psV2 := append([]uint(nil), ps...)
	in1, in2 := clone(pre), clone(pre)
	var r1 map[uint]uint
	if fn == "fair" {
		r1 = v1.FairDivider(psV1, d, in1)
		divider.Fair(psV2, d, in2)
	} else {
		r1 = v1.RateDivider(psV1, d, in1)
		divider.Rate(psV2, d, in2)
	}
	c.V1, c.V1Nil = pairs(r1), r1 == nil
	c.V1In = pairs(in1)
	c.V2, c.V2Nil = pairs(in2), in2 == nil
	return c
}

var divUniverse = []uint{1, 2, 3, 5, 8, 13, 40}

// TestRecordDividers logs the real dividers on the exhaustive small domain (validated by TLC, PureDiv.tla).
func TestRecordDividers(t *testing.T) {
	out := openOut(t, "div_calls.ndjson")
	defer out.close()
	maxN, maxD := envInt("DIV_MAXN", 4), envInt("DIV_MAXD", 40)
	for _, ps := range descLists(divUniverse, maxN) {
		prefilled := map[uint]uint{7: 4, 100: 1}
		for i, p := range ps {
			prefilled[p] = uint(i*2+1) % 4
		}
		partial := map[uint]uint{ps[0]: 2, 9: 0}
		for d := uint(0); d <= uint(maxD); d++ {
			for _, fn := range []string{"fair", "rate"} {
				out.put(callDividers(fn, ps, d, nil))
				out.put(callDividers(fn, ps, d, map[uint]uint{}))
				out.put(callDividers(fn, ps, d, prefilled))
				if d%5 == 0 {
					out.put(callDividers(fn, ps, d, partial))
				}
			}
		}
	}
	// longer lists (rounding leftovers of 2 and more only appear with 5+ priorities), sparse dividends
	for _, ps := range descLists(divUniverse, len(divUniverse)) {
		if len(ps) <= maxN {
			continue
		}
		for _, d := range []uint{1, 2, 3, 12, 37, 38, 40} {
			for _, fn := range []string{"fair", "rate"} {
				out.put(callDividers(fn, ps, d, nil))
				out.put(callDividers(fn, ps, d, map[uint]uint{7: 4, ps[1]: 1}))
			}
		}
	}
	for _, ps := range [][]uint{{9, 7, 5, 3, 1}, {12, 11, 10, 9, 8}, {8, 7, 6, 5, 4, 3, 2, 1}, {6, 5, 4, 3, 2, 1}} {
		for d := uint(0); d <= 40; d++ {
			out.put(callDividers("rate", ps, d, map[uint]uint{}))
			out.put(callDividers("fair", ps, d, map[uint]uint{}))
		}
	}
	t.Logf("RECORDED div_calls=%d", out.n)
}

// ---- large magnitudes: the same postcondition (C14) evaluated with big integers, because TLC integers are 32 bit.

func bigProp(c divCall, res [][2]uint, resNil bool, consOnly ...bool) error {
	if resNil {
		return fmt.Errorf("nil result")
	}
	get := func(pp [][2]uint, k uint) (uint, bool) {
		for _, kv := range pp {
			if kv[0] == k {
				return kv[1], true
			}
		}
		return 0, false
	}
	listed := map[uint]bool{}
	S := new(big.Int)
	for _, p := range c.Ps {
		listed[p] = true
		S.Add(S, new(big.Int).SetUint64(uint64(p)))
	}
	sum := new(big.Int)
	inc := make([]*big.Int, len(c.Ps))
	for i, p := range c.Ps {
		a, _ := get(res, p)
		b, _ := get(c.Pre, p)
		if a < b {
			return fmt.Errorf("entry of %d decreased", p)
		}
		inc[i] = new(big.Int).SetUint64(uint64(a - b))
		sum.Add(sum, inc[i])
	}
	if sum.Cmp(new(big.Int).SetUint64(uint64(c.D))) != 0 {
		return fmt.Errorf("added total %v != dividend %d", sum, c.D)
	}
	for _, kv := range c.Pre {
		if !listed[kv[0]] {
			if v, ok := get(res, kv[0]); !ok || v != kv[1] {
				return fmt.Errorf("foreign key %d changed", kv[0])
			}
		}
	}
	for _, kv := range res {
		if !listed[kv[0]] {
			if _, ok := get(c.Pre, kv[0]); !ok {
				return fmt.Errorf("foreign key %d created", kv[0])
			}
		}
	}
	if len(consOnly) > 0 && consOnly[0] { // conservation and "nothing else changes" only
		return nil
	}
	for i := 0; i+1 < len(inc); i++ {
		if inc[i].Cmp(inc[i+1]) < 0 {
			return fmt.Errorf("increments increase along the list at %d", i)
		}
	}
	n := big.NewInt(int64(len(c.Ps)))
	for i, p := range c.Ps {
		if c.Fn == "fair" {
			if new(big.Int).Sub(inc[0], inc[i]).Cmp(big.NewInt(1)) > 0 {
				return fmt.Errorf("fair spread > 1")
			}
			continue
		}
		// |2*S*inc - 2*d*p| <= n*S
		x := new(big.Int).Mul(big.NewInt(2), new(big.Int).Mul(S, inc[i]))
		y := new(big.Int).Mul(big.NewInt(2), new(big.Int).Mul(new(big.Int).SetUint64(uint64(c.D)), new(big.Int).SetUint64(uint64(p))))
		x.Sub(x, y).Abs(x)
		if x.Cmp(new(big.Int).Mul(n, S)) > 0 {
			return fmt.Errorf("rate share of %d farther than n/2 from exact", p)
		}
	}
	return nil
}

func samePairs(a, b [][2]uint) bool {
	if len(a) != len(b) {
		return false
	}
	for i := range a {
		if a[i] != b[i] {
			return false
		}
	}
	return true
}

// TestLargeDividers: seeded large magnitudes (priorities up to 10^4..10^6, dividends up to 2^32 while
// 2*D*p stays below 2^53), checked against the C14 postcondition with big integers.
func TestLargeDividers(t *testing.T) {
	out := openOut(t, "div_large.ndjson")
	defer out.close()
	rnd := newRand(14)
	n := envInt("DIV_LARGE_N", 20000)
	bad := 0
	for it := 0; it < n; it++ {
		k := 1 + rnd.Intn(8)
		maxP := []uint{10, 100, 10000, 1000000}[rnd.Intn(4)]
		set := map[uint]bool{}
		for len(set) < k {
			set[1+uint(rnd.Int63n(int64(maxP)))] = true
		}
		var u []uint
		for p := range set {
			u = append(u, p)
		}
		ps := descLists(u, k)
		list := ps[len(ps)-1] // the full set, sorted
		limit := uint64(1) << 32
		if m := (uint64(1) << 52) / uint64(list[0]); m < limit {
			limit = m
		}
		var d uint
		switch rnd.Intn(4) {
		case 0:
			d = uint(rnd.Intn(64))
		case 1:
			d = uint(rnd.Int63n(int64(limit)))
		case 2:
			d = uint(limit) - uint(rnd.Intn(8))
		default:
			d = uint(rnd.Int63n(1 << 16))
		}
		pre := map[uint]uint{}
		if rnd.Intn(2) == 0 {
			for _, p := range list {
				if rnd.Intn(2) == 0 {
					pre[p] = uint(rnd.Intn(1000))
				}
			}
			pre[maxP+7] = 3
		}
		for _, fn := range []string{"fair", "rate"} {
			c := callDividers(fn, list, d, pre)
			var why string
			if err := bigProp(c, c.V1, c.V1Nil); err != nil {
				why = "v1: " + err.Error()
			} else if err := bigProp(c, c.V2, c.V2Nil); err != nil {
				why = "v2: " + err.Error()
			} else if !samePairs(c.V1, c.V2) {
				why = "v1 and v2 differ"
			}
			if why != "" {
				bad++
				out.put(map[string]any{"call": c, "why": why})
				if bad <= 3 {
					t.Logf("C14 counterexample: %s %+v", why, c)
				}
			}
		}
	}
	// priorities so large that their sum does not fit a machine word (it wraps, possibly to 0): the conservation clause and
	// "changes nothing else" are stated for every list; the proportionality clauses are not judged here (with a wrapped sum the
	// code's notion of proportion is not the mathematical one, and the property's rounding bound is about the latter)
	const maxU = ^uint(0)
	wrapLists := [][]uint{{maxU, 1}, {maxU - 6, 7}, {maxU, 2, 1}, {1 << 63, 1 << 62, 1<<62 - 1, 1}, {1 << 63, 1<<63 - 1, 1}, {maxU, maxU - 1, 3},
		{maxU - 1, 2}, {1 << 63, 1 << 62, 1 << 61}, {maxU}, {0}, {maxU, maxU - 1, maxU - 2, 3}, {1 << 63, 1 << 63 - 5, 5}}
	wraps := 0
	for _, list := range wrapLists {
		for _, d := range []uint{0, 1, 2, 3, 7, 10, 64, 1000, 1 << 16, 1 << 31} {
			for _, pre := range []map[uint]uint{{}, {list[0]: 5, 77: 3}} {
				for _, fn := range []string{"fair", "rate"} {
					c := callDividers(fn, list, d, pre)
					wraps++
					var why string
					if err := bigProp(c, c.V1, c.V1Nil, true); err != nil {
						why = "v1: " + err.Error()
					} else if err := bigProp(c, c.V2, c.V2Nil, true); err != nil {
						why = "v2: " + err.Error()
					}
					if why != "" {
						bad++
						out.put(map[string]any{"call": c, "why": why})
						if bad <= 3 {
							t.Logf("C14 counterexample: %s %+v", why, c)
						}
					}
				}
			}
		}
	}
	t.Logf("LARGE calls=%d bad=%d wrapped_sum_calls=%d", 2*n, bad, wraps)
}
