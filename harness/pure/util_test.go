package pure

import (
	"bufio"
	"encoding/json"
	"math/rand"
	"os"
	"path/filepath"
	"sort"
	"strconv"
	"testing"
)

func envInt(name string, def int) int {
	if v, err := strconv.Atoi(os.Getenv(name)); err == nil {
		return v
	}
	return def
}

func seed() int64 { return int64(envInt("VERIF_SEED", 1)) }

func newRand(salt int64) *rand.Rand { return rand.New(rand.NewSource(seed()*1000003 + salt)) }

type ndjson struct {
	f *os.File
	w *bufio.Writer
	n int
}

func openOut(t *testing.T, name string) *ndjson {
	dir := os.Getenv("OUT_DIR")
	if dir == "" {
		dir = t.TempDir()
	}
	f, err := os.Create(filepath.Join(dir, name))
	if err != nil {
		t.Fatal(err)
	}
	return &ndjson{f: f, w: bufio.NewWriterSize(f, 1<<20)}
}

func (o *ndjson) put(v any) {
	b, err := json.Marshal(v)
	if err != nil {
		panic(err)
	}
	o.w.Write(b)
	o.w.WriteByte('\n')
	o.n++
}

func (o *ndjson) close() { o.w.Flush(); o.f.Close() }

// pairs renders a distribution as [[key,value],...] sorted by key, highest first.
func pairs(m map[uint]uint) [][2]uint {
	out := make([][2]uint, 0, len(m))
	for k, v := range m {
		out = append(out, [2]uint{k, v})
	}
	sort.Slice(out, func(i, j int) bool { return out[i][0] > out[j][0] })
	return out
}

func clone(m map[uint]uint) map[uint]uint {
	if m == nil {
		return nil
	}
	c := make(map[uint]uint, len(m))
	for k, v := range m {
		c[k] = v
	}
	return c
}

// descLists enumerates all strictly decreasing lists of 1..maxN values from universe.
func descLists(universe []uint, maxN int) [][]uint {
	u := append([]uint(nil), universe...)
	sort.Slice(u, func(i, j int) bool { return u[i] > u[j] })
	var out [][]uint
	for mask := 1; mask < 1<<len(u); mask++ {
		var l []uint
		for i := range u {
			if mask&(1<<i) != 0 {
				l = append(l, u[i])
			}
		}
		if len(l) <= maxN {
			out = append(out, l)
		}
	}
	return out
}
