package joinh

// Several disciplines fed from ONE input channel (a plain Go fan-out: the input channel is the caller's, nothing forbids other
// receivers on it).  C10 must hold for every one of them: whatever a discipline has accepted leaves within the bound, even
// when the other receivers take what it expected to find in the channel.  Inside a synctest bubble the goroutines of the
// disciplines still run in parallel, so the competition for the channel is real; time is virtual, so the bound is exact:
// once the channel has been seen empty at instant te (everything written has been accepted by some discipline) and nothing is
// written afterwards, every element must have appeared on some output by te + Timeout + Timeout div Div.
// Records (OUT_DIR/shared.ndjson): Reset{kind,T,Div,n}, W{x: written so far}, Empty{x: written}, End{x: delivered}, each
// with the virtual time in units; judged by Mon_JoinShared.tla.

import (
	"bufio"
	"context"
	"encoding/json"
	"math/rand"
	"os"
	"path/filepath"
	"sync"
	"sync/atomic"
	"testing"
	"testing/synctest"
	"time"

	v1join "github.com/akramarenkov/cqos/join"
	"github.com/akramarenkov/cqos/v2/join"
	"github.com/akramarenkov/cqos/v2/join/unite"
)

type sharedRec struct {
	Tr   int    `json:"tr"`
	Ev   string `json:"ev"`
	Kind string `json:"kind"`
	T    int    `json:"T"`
	Div  int    `json:"Div"`
	N    int    `json:"n"`
	X    int    `json:"x"`
	Now  int    `json:"now"`
}

func TestRecordShared(t *testing.T) {
	dir := os.Getenv("OUT_DIR")
	if dir == "" {
		dir = t.TempDir()
	}
	f, err := os.Create(filepath.Join(dir, "shared.ndjson"))
	if err != nil {
		t.Fatal(err)
	}
	defer f.Close()
	w := bufio.NewWriter(f)
	defer w.Flush()
	seed, runs := int64(1), 24
	if v := os.Getenv("VERIF_SEED"); v != "" {
		var s int64
		for _, c := range v {
			s = s*10 + int64(c-'0')
		}
		seed = s
	}
	if v := os.Getenv("SHARED_RUNS"); v != "" {
		runs = 0
		for _, c := range v {
			runs = runs*10 + int(c-'0')
		}
	}
	rnd := rand.New(rand.NewSource(seed*7919 + 77))
	for run := 1; run <= runs; run++ {
		kind := []string{"join", "unite", "v1"}[run%3]
		nd := 2 + rnd.Intn(15)
		tUnits := []int{10, 20, 40}[rnd.Intn(3)]
		if kind == "v1" { // v1 refuses ticker periods below 10 ms
			tUnits *= 10
		}
		inacc := []int{25, 50, 10}[rnd.Intn(3)]
		js := 3 + rnd.Intn(30)
		capIn := []int{64, 1024, 8192}[rnd.Intn(3)]
		total := capIn/2 + rnd.Intn(capIn*3)
		noCopy := rnd.Intn(3) == 0
		bursts := 1 + rnd.Intn(3)
		synctest.Test(t, func(t *testing.T) {
			unit := time.Millisecond
			start := time.Now()
			now := func() int { return int(time.Since(start) / unit) }
			emit := func(r sharedRec) {
				r.Tr = run
				r.Now = now()
				b, _ := json.Marshal(r)
				w.Write(b)
				w.WriteByte('\n')
			}
			emit(sharedRec{Ev: "Reset", Kind: kind, T: tUnits, Div: 100 / inacc, N: nd})
			var delivered atomic.Int64
			var wg sync.WaitGroup
			consume := func(out <-chan []int, release func()) {
				defer wg.Done()
				for s := range out {
					delivered.Add(int64(len(s)))
					if release != nil {
						release()
					}
				}
			}
			var closeIn func()
			var write func(k int)
			var inLen func() int
			ctx, cancel := context.WithCancel(context.Background())
			defer cancel()
			ok := true
			switch kind {
			case "unite":
				in := make(chan []int, capIn)
				write, closeIn, inLen = func(k int) { in <- []int{k} }, func() { close(in) }, func() int { return len(in) }
				for i := 0; i < capIn/2 && i < total; i++ { // part of the data is waiting before the disciplines exist
					write(i + 1)
				}
				for i := 0; i < nd; i++ {
					d, err := unite.New(unite.Opts[int]{Input: in, JoinSize: uint(js), NoCopy: noCopy, Timeout: time.Duration(tUnits) * unit, TimeoutInaccuracy: uint(inacc)})
					if err != nil {
						ok = false
						break
					}
					wg.Add(1)
					if noCopy {
						go consume(d.Output(), d.Release)
					} else {
						go consume(d.Output(), nil)
					}
				}
			case "join":
				in := make(chan int, capIn)
				write, closeIn, inLen = func(k int) { in <- k }, func() { close(in) }, func() int { return len(in) }
				for i := 0; i < capIn/2 && i < total; i++ {
					write(i + 1)
				}
				for i := 0; i < nd; i++ {
					d, err := join.New(join.Opts[int]{Input: in, JoinSize: uint(js), NoCopy: noCopy, Timeout: time.Duration(tUnits) * unit, TimeoutInaccuracy: uint(inacc)})
					if err != nil {
						ok = false
						break
					}
					wg.Add(1)
					if noCopy {
						go consume(d.Output(), d.Release)
					} else {
						go consume(d.Output(), nil)
					}
				}
			default:
				in := make(chan int, capIn)
				write, closeIn, inLen = func(k int) { in <- k }, func() { close(in) }, func() int { return len(in) }
				for i := 0; i < capIn/2 && i < total; i++ {
					write(i + 1)
				}
				for i := 0; i < nd; i++ {
					var released chan struct{}
					if noCopy {
						released = make(chan struct{})
					}
					d, err := v1join.New(v1join.Opts[int]{Ctx: ctx, Input: in, JoinSize: uint(js), Released: released,
						Timeout: time.Duration(tUnits) * unit, TimeoutInaccuracy: uint(inacc)})
					if err != nil {
						ok = false
						break
					}
					wg.Add(1)
					if noCopy {
						go consume(d.Output(), func() { released <- struct{}{} })
					} else {
						go consume(d.Output(), nil)
					}
				}
			}
			if !ok { // the constructor refused the options: nothing to judge
				emit(sharedRec{Ev: "Rejected"})
				closeIn()
				wg.Wait()
				return
			}
			written := capIn / 2
			if written > total {
				written = total
			}
			for b := 0; b < bursts; b++ {
				upto := total * (b + 1) / bursts
				for written < upto {
					written++
					write(written)
				}
				emit(sharedRec{Ev: "W", X: written})
				if b+1 < bursts {
					time.Sleep(time.Duration(rnd.Intn(3*tUnits)) * unit)
				}
			}
			// wait (in virtual time) until the channel is empty: everything written has then been accepted by some discipline
			for i := 0; i < 100000 && inLen() > 0; i++ {
				synctest.Wait()
				if inLen() > 0 {
					time.Sleep(unit)
				}
			}
			if inLen() == 0 {
				emit(sharedRec{Ev: "Empty", X: written})
				time.Sleep(time.Duration(tUnits+tUnits/(100/inacc)+1) * unit)
				synctest.Wait()
				emit(sharedRec{Ev: "End", X: int(delivered.Load())})
			} else {
				emit(sharedRec{Ev: "Stuck", X: inLen()}) // nobody takes the data any more: not a C10 matter, reported as a note
			}
			closeIn()
			wg.Wait()
			emit(sharedRec{Ev: "Closed", X: int(delivered.Load())})
		})
	}
	t.Logf("SHARED runs=%d", runs)
}
