// Package joinh drives the REAL join disciplines (v2 join, v2 unite, v1 join) in lock-step inside testing/synctest
// bubbles: one environment action, synctest.Wait(), one ndjson record of the observables.  Schedules come from a file
// (SCHED): explicit step lists derived from TLC state graphs, or seeded adaptive random walks.  The traces (OUT) are
// validated by TLC against Trace_Join/Trace_Unite (strict conformance) and Mon_Join (property monitors).
package joinh

import (
	"bufio"
	"context"
	"encoding/json"
	"fmt"
	"math/rand"
	"os"
	"strconv"
	"sync/atomic"
	"testing"
	"testing/synctest"
	"time"
	"unsafe"

	v1join "github.com/akramarenkov/cqos/join"
	"github.com/akramarenkov/cqos/v2/join"
	"github.com/akramarenkov/cqos/v2/join/unite"
)

// ---------------------------------------------------------------- schedule / trace records

type randSpec struct {
	Seed int64          `json:"seed"`
	N    int            `json:"n"`
	W    map[string]int `json:"w"` // weights of W C R L A S X
}

type sched struct {
	ID       int       `json:"id"`
	Kind     string    `json:"kind"` // join | unite | v1
	J        int       `json:"J"`
	T        int       `json:"T"`     // timeout in units (0 = none)
	Inacc    int       `json:"inacc"` // TimeoutInaccuracy passed to the constructor (0 = default)
	Div      int       `json:"Div"`   // floor(100/inaccuracy) the options promise (monitor bound, harness does not use it)
	I        int       `json:"I"`     // expected ticker period in units (strict spec only)
	Cap      int       `json:"cap"`
	NoCopy   bool      `json:"nocopy"`
	UnitNs   int64     `json:"unit_ns"`
	Ready    bool      `json:"ready"`    // consumer receives and releases as soon as possible
	Scribble bool      `json:"scribble"` // consumer overwrites what it received
	MaxItems int       `json:"maxItems"`
	Lens     []int     `json:"lens"` // unite: slice lengths for random writes
	Steps    []string  `json:"steps"`
	Rand     *randSpec `json:"rand"`
	Src      string    `json:"src"`
	Slack    int       `json:"slack"` // unite: spare capacity of every written slice (cap = len + slack)
	// unite: the input slices are views into ONE table the producer filled beforehand (chunks of a buffer, sent in an order that
	// is not their address order; cap of every view reaches the end of the table); lengths are planned from Lens
	Shared     bool  `json:"shared"`
	SharedLens []int `json:"shared_lens"` // optional explicit plan: lengths of the views in the order they are sent ...
	SharedAddr []int `json:"shared_addr"` // ... and the order of their indices in memory
}

type heldObs struct {
	K     int   `json:"k"`
	Elems []int `json:"elems"`
	Tail  []int `json:"tail"`
}

type rec struct {
	Tr      int       `json:"tr"`
	Ev      string    `json:"ev"`
	X       int       `json:"x"`     // Write: first element id; Release/Scribble: slice ordinal
	N       int       `json:"n"`     // Write: number of elements (join: 1)
	Elems   []int     `json:"elems"` // Recv: contents at delivery; Scribble: what the consumer wrote
	Tail    []int     `json:"tail"`  // Recv: rest of the backing array (len..cap)
	Mem     int       `json:"mem"`   // identity of the backing array (Recv; unite Write); views into a shared table: one identity per view
	RMem    int       `json:"rmem"`  // identity by address range including the spare capacity (overlapping ranges share one identity)
	Ok      bool      `json:"ok"`    // Release: accepted
	Later   bool      `json:"later"` // Write: the channel write itself happens one unit later, at the very instant the clock step ends
	Now     int       `json:"now"`
	Frac    bool      `json:"frac"` // virtual time is not a whole number of units (never on the unchanged tree)
	InLen   int       `json:"inlen"`
	OutLen  int       `json:"outlen"`
	OutCap  int       `json:"outcap"`
	Closed  bool      `json:"closed"`
	StopRet bool      `json:"stopret"`
	Held    []heldObs `json:"held"`
	C       *cfgRec   `json:"c,omitempty"` // Reset only
}

// options of the trace, as the Reset record carries them (scalars only: TLC's JSON reader has no null)
type cfgRec struct {
	Kind   string `json:"kind"`
	J      int    `json:"J"`
	T      int    `json:"T"`
	Inacc  int    `json:"inacc"`
	Div    int    `json:"Div"`
	I      int    `json:"I"`
	Cap    int    `json:"cap"`
	NoCopy bool   `json:"nocopy"`
	V1     bool   `json:"v1"`
	Ready  bool   `json:"ready"`
	Src    string `json:"src"`
}

// ---------------------------------------------------------------- discipline adapter

type disc struct {
	prep     func(first, n int) (send func(), mem int) // builds the next item; send() is the blocking channel write
	closeIn  func()
	inLen    func() int
	out      <-chan []int
	release  func() bool // true when the discipline took the signal
	stop     func()
	cancel   func()
	drainOne func() bool // take one item back from the input (cleanup)
	planLen  func() int  // unite with a shared table: length of the next input slice
}

type memMap struct {
	lo, hi []uintptr
	id     []int
	next   int
	views  map[uintptr][2]int // shared table: data pointer of a non-empty view -> (length, identity)
}

// view registers a non-empty view into the producer's shared table under an identity of its own
func (m *memMap) view(s []int) int {
	if len(s) == 0 {
		return 0
	}
	if m.views == nil {
		m.views = map[uintptr][2]int{}
	}
	m.next++
	m.views[uintptr(unsafe.Pointer(unsafe.SliceData(s)))] = [2]int{len(s), m.next}
	return m.next
}

// ident: the identity of exactly this slice if it is a registered view (same start, same length), else the range identity
func (m *memMap) ident(s []int) int {
	if len(s) > 0 && m.views != nil {
		if v, ok := m.views[uintptr(unsafe.Pointer(unsafe.SliceData(s)))]; ok && v[0] == len(s) {
			return v[1]
		}
	}
	return m.of(s)
}

func (m *memMap) of(s []int) int {
	if cap(s) == 0 {
		return 0
	}
	lo := uintptr(unsafe.Pointer(unsafe.SliceData(s)))
	hi := lo + uintptr(cap(s))*unsafe.Sizeof(int(0))
	for i := range m.lo {
		if lo < m.hi[i] && m.lo[i] < hi {
			return m.id[i]
		}
	}
	m.next++
	m.lo, m.hi, m.id = append(m.lo, lo), append(m.hi, hi), append(m.id, m.next)
	return m.next
}

func newDisc(t *testing.T, s *sched, mm *memMap, keep *[][]int) (*disc, error) {
	unit := time.Duration(s.UnitNs)
	d := &disc{}
	switch s.Kind {
	case "join":
		in := make(chan int, s.Cap)
		dsc, err := join.New(join.Opts[int]{Input: in, JoinSize: uint(s.J), NoCopy: s.NoCopy,
			Timeout: time.Duration(s.T) * unit, TimeoutInaccuracy: uint(s.Inacc)})
		if err != nil {
			return nil, err
		}
		d.prep = func(first, n int) (func(), int) { return func() { in <- first }, 0 }
		d.closeIn = func() { close(in) }
		d.inLen = func() int { return len(in) }
		d.out = dsc.Output()
		d.release = func() bool { return asyncRelease(dsc.Release) }
		d.drainOne = func() bool {
			select {
			case _, ok := <-in:
				return ok
			default:
				return false
			}
		}
	case "unite":
		in := make(chan []int, s.Cap)
		dsc, err := unite.New(unite.Opts[int]{Input: in, JoinSize: uint(s.J), NoCopy: s.NoCopy,
			Timeout: time.Duration(s.T) * unit, TimeoutInaccuracy: uint(s.Inacc)})
		if err != nil {
			return nil, err
		}
		var table []int
		var offs, lens []int
		nextChunk := 0
		if s.Shared {
			prng := rand.New(rand.NewSource(int64(s.ID)*7919 + 13))
			lens = make([]int, s.MaxItems+2)
			total := 0
			for i := range lens {
				lens[i] = s.Lens[prng.Intn(len(s.Lens))]
				total += lens[i]
			}
			addr := prng.Perm(len(lens))
			if len(s.SharedLens) > 0 {
				lens, addr, total = append([]int{}, s.SharedLens...), append([]int{}, s.SharedAddr...), 0
				for len(lens) < s.MaxItems+2 { // whatever is written beyond the plan: single elements behind it
					addr = append(addr, len(lens))
					lens = append(lens, 1)
				}
				for _, n := range lens {
					total += n
				}
			}
			offs = make([]int, len(lens))
			pos := 0
			for _, k := range addr { // address order of the chunks: a permutation of the order they are sent in
				offs[k] = pos
				pos += lens[k]
			}
			table = make([]int, total)
			first := 1
			for k := range lens {
				for i := 0; i < lens[k]; i++ {
					table[offs[k]+i] = first + i
				}
				first += lens[k]
			}
			d.planLen = func() int { return lens[nextChunk] }
		}
		d.prep = func(first, n int) (func(), int) {
			if s.Shared {
				k := nextChunk
				nextChunk++
				sl := table[offs[k] : offs[k]+lens[k]]
				mm.of(sl)
				return func() { in <- sl }, mm.view(sl)
			}
			sl := make([]int, n, n+s.Slack)
			if n == 0 && first%2 == 0 {
				sl = nil // an empty input slice may just as well be nil
			}
			for i := range sl {
				sl[i] = first + i
			}
			*keep = append(*keep, sl) // the producer keeps its slices alive (stable identities)
			return func() { in <- sl }, mm.of(sl)
		}
		d.closeIn = func() { close(in) }
		d.inLen = func() int { return len(in) }
		d.out = dsc.Output()
		d.release = func() bool { return asyncRelease(dsc.Release) }
		d.drainOne = func() bool {
			select {
			case _, ok := <-in:
				return ok
			default:
				return false
			}
		}
	case "v1":
		in := make(chan int, s.Cap)
		ctx, cancel := context.WithCancel(context.Background())
		var rel chan struct{}
		opts := v1join.Opts[int]{Ctx: ctx, Input: in, JoinSize: uint(s.J),
			Timeout: time.Duration(s.T) * unit, TimeoutInaccuracy: uint(s.Inacc)}
		if s.NoCopy {
			rel = make(chan struct{})
			opts.Released = rel
		}
		dsc, err := v1join.New(opts)
		if err != nil {
			cancel()
			return nil, err
		}
		d.prep = func(first, n int) (func(), int) { return func() { in <- first }, 0 }
		d.closeIn = func() { close(in) }
		d.inLen = func() int { return len(in) }
		d.out = dsc.Output()
		d.release = func() bool {
			select {
			case rel <- struct{}{}:
				return true
			default:
				return false
			}
		}
		d.stop = dsc.Stop
		d.cancel = cancel
		d.drainOne = func() bool {
			select {
			case _, ok := <-in:
				return ok
			default:
				return false
			}
		}
	default:
		t.Fatalf("unknown kind %q", s.Kind)
	}
	return d, nil
}

// Release() of v2 blocks on an unbuffered channel: call it from a helper so that a discipline that is not waiting
// (a mutant) cannot hang the harness; a later close of the channel panics in the helper only.
func asyncRelease(f func()) bool {
	done := make(chan struct{})
	go func() {
		defer func() { _ = recover() }()
		f()
		close(done)
	}()
	synctest.Wait()
	select {
	case <-done:
		return true
	default:
		return false
	}
}

// ---------------------------------------------------------------- one trace

type holding struct {
	k        int
	s        []int
	watching bool
	released bool
}

type runner struct {
	t   *testing.T
	s   *sched
	d   *disc
	w   *bufio.Writer
	f   *os.File
	mm  *memMap
	rng *rand.Rand

	start                        time.Time
	written, items               int
	closedIn, closedOut          bool
	pendingW                     *atomic.Bool
	held                         []*holding
	nRecv                        int
	halted, stopCalled, deadline bool
	stopRet                      *bool
	steps                        int
}

func (r *runner) emit(e rec) {
	synctest.Wait()
	unit := time.Duration(r.s.UnitNs)
	el := time.Since(r.start)
	e.Tr = r.s.ID
	e.Now = int(el / unit)
	e.Frac = el%unit != 0
	e.InLen = r.d.inLen()
	if r.pendingW != nil && !r.pendingW.Load() {
		e.InLen++
	}
	e.OutLen = len(r.d.out)
	e.OutCap = cap(r.d.out)
	e.Closed = r.closedOut
	e.StopRet = r.stopRet != nil && *r.stopRet
	e.Held = []heldObs{}
	for _, h := range r.held {
		if h.watching {
			full := h.s[:cap(h.s)]
			e.Held = append(e.Held, heldObs{K: h.k, Elems: append([]int{}, full[:len(h.s)]...), Tail: append([]int{}, full[len(h.s):]...)})
		}
	}
	if e.Elems == nil {
		e.Elems = []int{}
	}
	if e.Tail == nil {
		e.Tail = []int{}
	}
	b, err := json.Marshal(e)
	if err != nil {
		panic(err)
	}
	r.w.Write(b)
	r.w.WriteByte('\n')
	r.w.Flush()
}

func (r *runner) writerBusy() bool { return r.pendingW != nil && !r.pendingW.Load() }

func (r *runner) canWrite() bool {
	if r.closedIn || r.writerBusy() || r.items >= r.s.MaxItems {
		return false
	}
	if r.s.Cap == 0 {
		return true
	}
	return r.d.inLen() < r.s.Cap
}

func (r *runner) doWrite(n int) { r.doWriteAfter(n, 0) }

// doWriteAfter(n, d): the producer's write reaches the channel d from now - with d = one unit, at the very instant at which the
// next clock step of the harness ends and (when the ticker period divides the unit) a tick fires: the discipline then finds
// a tick and an element ready together, in either order
func (r *runner) doWriteAfter(n int, d time.Duration) {
	if r.d.planLen != nil {
		n = r.d.planLen()
	}
	first := r.written + 1
	r.written += n
	r.items++
	done := new(atomic.Bool)
	send, mem := r.d.prep(first, n)
	go func() {
		if d > 0 {
			time.Sleep(d)
		}
		send()
		done.Store(true)
	}()
	r.pendingW = done
	r.emit(rec{Ev: "Write", X: first, N: n, Mem: mem, Later: d > 0})
}

func (r *runner) doClose() {
	r.d.closeIn()
	r.closedIn = true
	r.emit(rec{Ev: "Close"})
}

// returns: 0 nothing available, 1 slice, 2 closed
func (r *runner) doRecv(recordNone bool) int {
	select {
	case s, ok := <-r.d.out:
		if !ok {
			r.closedOut = true
			r.emit(rec{Ev: "RecvClosed"})
			return 2
		}
		r.nRecv++
		h := &holding{k: r.nRecv, s: s, watching: true}
		r.held = append(r.held, h)
		full := s[:cap(s)]
		r.emit(rec{Ev: "Recv", X: h.k, N: len(s), Elems: append([]int{}, s...), Tail: append([]int{}, full[len(s):]...), Mem: r.mm.ident(s), RMem: r.mm.of(s)})
		if r.s.Scribble && len(s) > 0 && (!r.s.NoCopy || r.rng.Intn(2) == 0) {
			for i := range s {
				s[i] = -(1000*h.k + i + 1)
			}
			if !r.s.NoCopy { // copy mode: the whole backing array is the consumer's, it may append into the spare capacity
				for i := len(s); i < cap(s) && i < len(s)+6; i++ {
					full[i] = -(1000*h.k + i + 1)
				}
			}
			r.emit(rec{Ev: "Scribble", X: h.k, Elems: append([]int{}, s...), Tail: append([]int{}, full[len(s):]...)})
		}
		return 1
	default:
		if recordNone {
			r.emit(rec{Ev: "RecvNone"})
		}
		return 0
	}
}

func (r *runner) owed() *holding {
	if !r.s.NoCopy {
		return nil
	}
	for _, h := range r.held {
		if !h.released {
			return h
		}
	}
	return nil
}

func (r *runner) doRelease() bool {
	h := r.owed()
	if h == nil {
		return false
	}
	ok := r.d.release()
	if ok {
		h.released = true
		h.watching = false // the memory is the discipline's again
	}
	r.emit(rec{Ev: "Release", X: h.k, Ok: ok})
	return ok
}

func (r *runner) doAdv() {
	time.Sleep(time.Duration(r.s.UnitNs))
	r.emit(rec{Ev: "Adv"})
}

func (r *runner) doHalt(stop bool) {
	r.halted = true
	if stop {
		r.stopCalled = true
		done := new(bool)
		r.stopRet = done
		go func() {
			r.d.stop()
			*done = true
		}()
		r.emit(rec{Ev: "Stop"})
	} else {
		r.d.cancel()
		r.emit(rec{Ev: "Cancel"})
	}
	// nobody helps: no receive, no release, no write; only the clock moves
	r.doAdv()
	r.doAdv()
	r.emit(rec{Ev: "Deadline"})
	r.deadline = true
}

func (r *runner) autoDrain() {
	if !r.s.Ready {
		return
	}
	for i := 0; i < 8; i++ {
		progress := false
		if r.owed() != nil && r.doRelease() {
			progress = true
		}
		if !r.closedOut && len(r.d.out) > 0 && r.doRecv(false) == 1 {
			progress = true
		}
		if !progress {
			return
		}
	}
}

func (r *runner) step(tok string) bool {
	switch tok[0] {
	case 'W':
		n := 1
		if len(tok) > 1 {
			n, _ = strconv.Atoi(tok[1:])
		}
		if r.s.Kind != "unite" {
			n = 1
		}
		if !r.canWrite() {
			return false
		}
		r.doWrite(n)
	case 'P': // a write that lands exactly at the end of the next clock step
		n := 1
		if len(tok) > 1 {
			n, _ = strconv.Atoi(tok[1:])
		}
		if r.s.Kind != "unite" {
			n = 1
		}
		if !r.canWrite() {
			return false
		}
		r.doWriteAfter(n, time.Duration(r.s.UnitNs))
	case 'C':
		if r.closedIn || r.writerBusy() {
			return false
		}
		r.doClose()
	case 'R':
		if r.closedOut {
			return false
		}
		if r.doRecv(r.halted && r.deadline) == 0 && !(r.halted && r.deadline) {
			return false
		}
	case 'L':
		if r.owed() == nil {
			return false
		}
		r.doRelease()
	case 'A':
		r.doAdv()
	case 'S':
		if r.s.Kind != "v1" || r.stopCalled {
			return false
		}
		r.doHalt(true)
	case 'X':
		if r.s.Kind != "v1" || r.halted {
			return false
		}
		r.doHalt(false)
	default:
		return false
	}
	r.steps++
	r.autoDrain()
	return true
}

func (r *runner) randomWalk() {
	rs := r.s.Rand
	toks := []string{"W", "C", "R", "L", "A", "S", "X"}
	total := 0
	for _, k := range toks {
		total += rs.W[k]
	}
	for i := 0; i < rs.N && !r.closedOut; i++ {
		for try := 0; try < 20; try++ {
			p := r.rng.Intn(total)
			tok := ""
			for _, k := range toks {
				if p < rs.W[k] {
					tok = k
					break
				}
				p -= rs.W[k]
			}
			if tok == "W" && r.s.Kind == "unite" {
				tok = "W" + strconv.Itoa(r.s.Lens[r.rng.Intn(len(r.s.Lens))])
			}
			if r.step(tok) {
				break
			}
		}
	}
}

// finale: close the input and read the output until it closes (time advances while nothing is available).
func (r *runner) finale() bool {
	limit := 6*(r.s.T+r.s.I) + 4*r.s.MaxItems + 40
	for i := 0; i < limit; i++ {
		if r.closedOut {
			return true
		}
		if !r.closedIn && !r.writerBusy() {
			r.doClose()
			continue
		}
		if r.owed() != nil && r.doRelease() {
			continue
		}
		switch r.doRecv(r.halted && r.deadline) {
		case 2:
			return true
		case 1:
			continue
		}
		if r.halted && !r.deadline {
			r.emit(rec{Ev: "Deadline"})
			r.deadline = true
			continue
		}
		if r.halted {
			break // RecvNone after the deadline has been recorded: the output will never close
		}
		r.doAdv()
	}
	r.emit(rec{Ev: "GiveUp"})
	return false
}

func runOne(t *testing.T, s *sched, w *bufio.Writer, f *os.File) (ok bool) {
	synctest.Test(t, func(t *testing.T) {
		mm := &memMap{}
		var keep [][]int
		r := &runner{t: t, s: s, w: w, f: f, mm: mm, start: time.Now()}
		seed := int64(s.ID)
		if s.Rand != nil {
			seed = s.Rand.Seed
		}
		r.rng = rand.New(rand.NewSource(seed))
		d, err := newDisc(t, s, mm, &keep)
		if err != nil { // options the constructor refuses (schedules probing the acceptance boundary): nothing runs, nothing to judge
			r.d = &disc{inLen: func() int { return 0 }, out: make(chan []int)}
			r.emit(rec{Ev: "Reset", C: &cfgRec{Kind: s.Kind, J: s.J, T: s.T, Inacc: s.Inacc, Div: s.Div, I: s.I, Cap: s.Cap,
				NoCopy: s.NoCopy, V1: s.Kind == "v1", Ready: s.Ready, Src: s.Src}})
			r.emit(rec{Ev: "Rejected"})
			ok = true
			return
		}
		r.d = d
		r.emit(rec{Ev: "Reset", C: &cfgRec{Kind: s.Kind, J: s.J, T: s.T, Inacc: s.Inacc, Div: s.Div, I: s.I, Cap: s.Cap,
			NoCopy: s.NoCopy, V1: s.Kind == "v1", Ready: s.Ready, Src: s.Src}})
		r.autoDrain()
		if s.Rand != nil {
			r.randomWalk()
		} else {
			for _, tok := range s.Steps {
				if r.closedOut {
					break
				}
				r.step(tok)
			}
		}
		ok = r.finale()
		if !ok {
			// the discipline did not terminate: leaving the bubble would hang or panic; the trace is on disk
			w.Flush()
			f.Sync()
			fmt.Printf("GIVEUP %d\n", s.ID)
			os.Exit(3)
		}
		// free whatever the harness itself still has parked
		for r.d.drainOne() {
		}
		synctest.Wait()
		_ = keep
	})
	return ok
}

func TestRecord(t *testing.T) {
	schedPath, outPath := os.Getenv("SCHED"), os.Getenv("OUT")
	if schedPath == "" || outPath == "" {
		t.Skip("SCHED/OUT not set")
	}
	from, _ := strconv.Atoi(os.Getenv("FROM"))
	sf, err := os.Open(schedPath)
	if err != nil {
		t.Fatal(err)
	}
	defer sf.Close()
	of, err := os.OpenFile(outPath, os.O_APPEND|os.O_CREATE|os.O_WRONLY, 0o644)
	if err != nil {
		t.Fatal(err)
	}
	defer of.Close()
	w := bufio.NewWriterSize(of, 1<<16)
	sc := bufio.NewScanner(sf)
	sc.Buffer(make([]byte, 1<<20), 1<<24)
	n := 0
	for sc.Scan() {
		var s sched
		if err := json.Unmarshal(sc.Bytes(), &s); err != nil {
			t.Fatal(err)
		}
		if s.ID < from {
			continue
		}
		fmt.Printf("BEGIN %d\n", s.ID)
		runOne(t, &s, w, of)
		fmt.Printf("END %d\n", s.ID)
		n++
	}
	w.Flush()
	fmt.Printf("DONE %d\n", n)
}
