package prioh

import (
	"encoding/json"
	"math/rand"
	"os"
	"testing"
	"testing/synctest"
)

// Gated random schedules of the real v2 discipline (code -> spec): every scheduler step with its snapshot interleaved with
// the environment's actions, validated by TLC against PrioV2 (Trace_PrioV2.tla). Complements the transition-cover replay
// (spec -> code) with unbuffered inputs and configurations too large to enumerate.

func (r *v2run) envActionRand(rnd *rand.Rand) bool {
	var acts []func()
	for _, p := range r.cfg.Prios {
		p := p
		if r.closedIn[p] {
			continue
		}
		if r.nextItem[p] < r.cfg.items(p) {
			room := len(r.ins[p]) < cap(r.ins[p])
			if r.cfg.incap(p) == 0 {
				room = !r.parked[p].Load()
			}
			if room {
				acts = append(acts, func() { r.produce(p) }, func() { r.produce(p) })
			}
		} else if !r.parked[p].Load() {
			acts = append(acts, func() { r.closeIn(p) })
		}
	}
	if len(r.d.Output()) > 0 {
		acts = append(acts, func() { r.recv() }, func() { r.recv() })
	}
	if len(r.held) > 0 {
		acts = append(acts, func() { r.release(r.held[rnd.Intn(len(r.held))]) })
	}
	if len(acts) == 0 {
		return false
	}
	acts[rnd.Intn(len(acts))]()
	return true
}

func TestRecordV2(t *testing.T) {
	cfg := loadConfig(t)
	defer startWatchdog(os.Getenv("OUT_DIR"))()
	events := openOut(t, "v2_events.ndjson")
	defer events.close()
	n := envInt("V2_RUNS", 100)
	base := int64(envInt("VERIF_SEED", 1))*7933 + int64(len(cfg.Name))
	for i := 1; i <= n; i++ {
		seed := base*100003 + int64(i)
		steps := 25 + (i*41)%160
		m, _ := json.Marshal(map[string]any{"cfg": cfg.Name, "run": i, "seed": seed, "steps": steps})
		marker.Store(string(m))
		synctest.Test(t, func(t *testing.T) {
			rnd := rand.New(rand.NewSource(seed))
			r := newV2(t, cfg, true)
			r.logSched = true
			faultStep := -1
			if cfg.Faults > 0 {
				faultStep = rnd.Intn(steps)
			}
			r.await() // Start
			for s := 0; s < steps; s++ {
				heartbeat.Add(1)
				if s == faultStep {
					r.faultKind = []string{"over", "under"}[rnd.Intn(2)]
					r.faultAt = r.divCalls + 1 + rnd.Intn(2)
				}
				if rnd.Intn(100) < 55 || !r.envActionRand(rnd) {
					if r.exited.Load() {
						break
					}
					r.next()
				}
				synctest.Wait()
				if !r.atGate { // released by the environment's action: log the step in its true position
					r.poll()
				}
			}
			r.emit(obs{E: "Free"})
			r.free.Store(true)
			close(r.freeCh)
			close(r.gate)
			if cfg.Extra["stall"] == true {
				r.stall()
			}
			r.finish()
			rec := resetV2(cfg, i, "v2rand", r.faultBad)
			rec["seed"], rec["steps"] = seed, steps
			events.put(rec)
			for _, o := range r.log {
				events.put(o)
			}
			events.w.Flush()
		})
	}
	flushContract(t, "contract_v2rand.ndjson")
	t.Logf("RECORDED v2 runs=%d records=%d", n, events.n)
}
