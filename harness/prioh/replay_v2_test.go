package prioh

import (
	"bufio"
	"encoding/json"
	"errors"
	"fmt"
	"os"
	"strconv"
	"sync/atomic"
	"testing"
	"testing/synctest"
	"time"

	"github.com/akramarenkov/cqos/v2/priority"
)

// ---- model paths (written by lib/prio_model.py from the TLC state graph)

type mstate struct {
	PC      string          `json:"pc"`
	Actual  map[string]uint `json:"actual"`
	Tactic  map[string]uint `json:"tactic"`
	Drained map[string]bool `json:"drained"`
	InLen   map[string]int  `json:"inlen"`
	OutLen  int             `json:"outlen"`
	FbLen   int             `json:"fblen"`
	PendLen int             `json:"pendlen"`
	Held    map[string]uint `json:"held"`
	Bad     bool            `json:"bad"`
	FInfo   []any           `json:"finfo"`
}

type step struct {
	A   string `json:"a"`
	Arg uint   `json:"arg"`
	S   mstate `json:"s"`
}

// scheduler action of the model -> hook event of the code
var evName = map[string]string{"Start": "Start", "Calc": "Calc", "FbOne": "FbOne", "Take": "SendStart", "Send": "Send",
	"PollEmpty": "PollEmpty", "PollTick": "PollTick", "Drain": "Drained", "Recalc": "Recalc", "RoundEnd": "RoundEnd",
	"FbLim": "FbLim", "LimDone": "LimDone", "FbFinal": "FbFinal", "Closing": "Closing"}

// ---- observed events for the property monitors (Mon_Prio.tla); only facts visible at the API

type obs struct {
	E    string   `json:"e"`
	P    uint     `json:"p"`
	K    int      `json:"k"`
	C    uint     `json:"c"`
	Note string   `json:"note,omitempty"`
	Held [][2]int `json:"held,omitempty"`
}

type pathResult struct {
	Path     int    `json:"path"`
	Steps    int    `json:"steps"`
	Diverged string `json:"diverged"`
	AtStep   int    `json:"at_step"`
	Label    string `json:"label"`
}

// v2run drives one real v2 discipline inside a synctest bubble, gated at every hook.
type v2run struct {
	cfg           Config
	d             *priority.Discipline[int]
	ins           map[uint]chan int
	closedIn      map[uint]bool
	nextItem      map[uint]int
	recvCount     map[uint]int
	held          []uint
	evCh          chan priority.VerifEvent
	gate          chan struct{}
	free          atomic.Bool
	freeCh        chan struct{}
	log           []any
	logSched      bool          // also log scheduler events (S records) for Trace_PrioV2
	stop          chan struct{} // releases parked writers of unbuffered inputs at the end
	parked        map[uint]*atomic.Bool
	divCalls      int
	faultAt       int
	faultKind     string
	faulted       bool
	atGate        bool
	faultBad      bool
	sawErrBad     bool
	last          priority.VerifEvent
	exited        atomic.Bool
	sendsAfterBad atomic.Int32
	badSeen       atomic.Bool
	relPanic      atomic.Bool
	rounds        atomic.Int64
}

func (r *v2run) emit(o any) { r.log = append(r.log, o) }

func (r *v2run) hook(ev priority.VerifEvent) {
	if len(r.cfg.Vals) != 0 { // the rest of the harness talks in priority identifiers
		ev.Priority = r.cfg.rank(ev.Priority)
		ev.Actual, ev.Tactic, ev.Strategic = r.cfg.rankMap(ev.Actual), r.cfg.rankMap(ev.Tactic), r.cfg.rankMap(ev.Strategic)
		dr := make(map[uint]bool, len(ev.Drained))
		for k, v := range ev.Drained {
			dr[r.cfg.rank(k)] = v
		}
		ev.Drained = dr
	}
	if ev.Ev == "Bad" {
		r.badSeen.Store(true)
	}
	if ev.Ev == "Send" && r.badSeen.Load() {
		r.sendsAfterBad.Add(1)
	}
	if ev.Ev == "Exit" {
		r.exited.Store(true)
	}
	if ev.Ev == "RoundEnd" {
		r.rounds.Add(1)
	}
	if r.free.Load() {
		return
	}
	select {
	case r.evCh <- ev:
		<-r.gate
	case <-r.freeCh: // the harness switched to free-running while this step was in progress
	}
}

func newV2(t *testing.T, cfg Config, gated bool) *v2run {
	r := &v2run{cfg: cfg, ins: map[uint]chan int{}, closedIn: map[uint]bool{}, nextItem: map[uint]int{}, recvCount: map[uint]int{},
		evCh: make(chan priority.VerifEvent), gate: make(chan struct{}), freeCh: make(chan struct{}), stop: make(chan struct{}), parked: map[uint]*atomic.Bool{}}
	r.free.Store(!gated)
	inputs := map[uint]<-chan int{}
	for _, p := range cfg.Prios {
		r.ins[p] = make(chan int, cfg.incap(p))
		inputs[cfg.val(p)] = r.ins[p]
		r.parked[p] = &atomic.Bool{}
	}
	base := dividerByName(cfg.Div)
	div := func(ps []uint, d uint, dist map[uint]uint) {
		r.divCalls++
		rps := make([]uint, len(ps))
		for i, p := range ps {
			rps[i] = cfg.rank(p)
		}
		noteContract(cfg.Prios, cfg.H, rps, d, dist != nil, false)
		before := uint(0)
		for _, v := range dist {
			before += v
		}
		base(ps, d, dist)
		if r.faultAt != 0 && r.divCalls == r.faultAt && len(ps) > 0 {
			r.faultAt = 0
			switch r.faultKind {
			case "over":
				dist[ps[0]]++
				r.faulted = true
			case "under":
				for _, p := range ps {
					if dist[p] > 0 {
						dist[p]--
						r.faulted = true
						break
					}
				}
			}
			after := uint(0)
			for _, v := range dist {
				after += v
			}
			// the contract of C15: a non-zero added total that differs from the dividend
			r.faultBad = r.faulted && after != 0 && after-before != d
		}
	}
	priority.VerifHook = r.hook
	d, err := priority.New(priority.Opts[int]{Divider: div, HandlersQuantity: cfg.H, Inputs: inputs})
	priority.VerifHook = nil
	if err != nil {
		t.Fatalf("New: %v", err)
	}
	for p := range inputs { // the options map is the caller's again once New has returned: it is emptied and never touched again
		delete(inputs, p)
	}
	r.d = d
	return r
}

// next opens the gate once and waits until the scheduler is parked at its next hook.
func (r *v2run) next() (priority.VerifEvent, bool) {
	if r.atGate { // the scheduler is parked inside a hook: let it take one step
		r.atGate = false
		r.gate <- struct{}{}
	}
	return r.await()
}

func (r *v2run) await() (priority.VerifEvent, bool) {
	for d := 2 * time.Nanosecond; d <= 64*time.Microsecond; d *= 2 { // idle delay / interrupt period may lie between two hooks
		synctest.Wait()
		if ev, ok := r.poll(); ok {
			return ev, true
		}
		time.Sleep(d)
	}
	synctest.Wait()
	return r.poll()
}

// poll takes a scheduler event that is waiting to be delivered (the scheduler reached its next hook)
func (r *v2run) poll() (priority.VerifEvent, bool) {
	select {
	case ev := <-r.evCh:
		r.atGate = true
		if r.logSched {
			dr := [][2]uint{}
			for _, p := range r.cfg.Prios {
				if ev.Drained[p] {
					dr = append(dr, [2]uint{p, 1})
				}
			}
			r.emit(sev{E: "S", Ev: ev.Ev, P: ev.Priority, Flag: ev.Flag, Actual: pairsU(ev.Actual), Tactic: pairsU(ev.Tactic),
				Strategic: pairsU(ev.Strategic), Prios: ev.Priorities})
		}
		return ev, true
	default:
		return priority.VerifEvent{}, false
	}
}

func (r *v2run) produce(p uint) error {
	r.nextItem[p]++
	v := int(p)*1000 + r.nextItem[p]
	if r.cfg.incap(p) == 0 {
		if r.parked[p].Load() {
			return fmt.Errorf("writer of unbuffered input %d still parked", p)
		}
		r.parked[p].Store(true)
		go func(flag *atomic.Bool) {
			select {
			case r.ins[p] <- v:
			case <-r.stop:
			}
			flag.Store(false)
		}(r.parked[p])
		synctest.Wait()
		r.emit(obs{E: "W", C: p, K: r.nextItem[p]})
		return nil
	}
	select {
	case r.ins[p] <- v:
		r.emit(obs{E: "W", C: p, K: r.nextItem[p]})
		return nil
	default:
		r.nextItem[p]--
		return fmt.Errorf("input %d is full", p)
	}
}

func (r *v2run) closeIn(p uint) {
	close(r.ins[p])
	r.closedIn[p] = true
	r.emit(obs{E: "C", C: p})
}

func (r *v2run) recv() (bool, bool) {
	select {
	case x, ok := <-r.d.Output():
		if !ok {
			return false, true
		}
		x.Priority = r.cfg.rank(x.Priority)
		r.held = append(r.held, x.Priority)
		r.recvCount[uint(x.Item/1000)]++
		r.emit(obs{E: "R", P: x.Priority, C: uint(x.Item / 1000), K: x.Item % 1000})
		return true, false
	default:
		return false, false
	}
}

func (r *v2run) release(p uint) error {
	for j, q := range r.held {
		if q == p {
			r.held = append(r.held[:j], r.held[j+1:]...)
			r.emit(obs{E: "L", P: p})
			go func() {
				defer func() { // Release() on a discipline that has already closed its feedback channel panics
					if x := recover(); x != nil {
						r.relPanic.Store(true)
					}
				}()
				r.d.Release(r.cfg.val(p))
			}()
			synctest.Wait()
			if r.relPanic.Swap(false) {
				r.emit(obs{E: "RelPanic", P: p, Note: "Release() panicked: the discipline terminated while a delivered item was not yet released"})
			}
			return nil
		}
	}
	return fmt.Errorf("nothing of priority %d is held", p)
}

func (r *v2run) heldCounts() [][2]int {
	m := map[uint]int{}
	for _, p := range r.held {
		m[p]++
	}
	out := [][2]int{}
	for _, p := range r.cfg.Prios {
		out = append(out, [2]int{int(p), m[p]})
	}
	return out
}

func (r *v2run) topUp() bool {
	progressed := false
	for _, p := range r.cfg.Prios {
		if r.closedIn[p] {
			continue
		}
		if r.cfg.incap(p) == 0 {
			if !r.parked[p].Load() {
				r.produce(p)
				progressed = true
			}
			continue
		}
		for len(r.ins[p]) < cap(r.ins[p]) {
			if r.produce(p) != nil {
				break
			}
			progressed = true
		}
	}
	return progressed
}

// stall: adversarial continuation for C01/C05. Keep every open input non-empty, receive everything,
// release nothing, until the scheduler stops handing out items (virtual-time quiescence).
func (r *v2run) stall() {
	idle := 0
	for idle < 3 && len(r.held) <= 3*int(r.cfg.H)+8 { // far beyond H already decides C01; do not feed a runaway
		progressed := r.topUp()
		synctest.Wait()
		for {
			got, _ := r.recv()
			if !got {
				break
			}
			progressed = true
		}
		if progressed {
			idle = 0
		} else {
			idle++
			idleWait(&r.rounds)
		}
	}
	r.emit(obs{E: "Q", Held: r.heldCounts()})
}

// stallGated: the stall continuation with the scheduler still gated, every input topped up before each of its steps.
func (r *v2run) stallGated() {
	quiet := 0
	for n := 0; n < 4000 && len(r.held) <= 3*int(r.cfg.H)+8; n++ {
		r.topUp()
		_, got := r.next()
		received := false
		for {
			g, _ := r.recv()
			if !g {
				break
			}
			received = true
		}
		if got || received {
			quiet = 0
			continue
		}
		// no scheduler step and nothing to receive: the scheduler is durably blocked (waiting for a release)
		if quiet++; quiet >= 2 {
			r.emit(obs{E: "Q", Held: r.heldCounts()})
			return
		}
	}
}

// alone: continuation for C06. Bring the discipline to "nothing in flight" (release and drain everything that
// is already inside), then give data to ONE priority only and never release: it must be granted all H handlers.
func (r *v2run) alone(pick int) {
	for quiet := 0; quiet < 3; {
		for len(r.held) > 0 {
			r.release(r.held[0])
		}
		synctest.Wait()
		got, _ := r.recv()
		if got {
			quiet = 0
			continue
		}
		quiet++
		idleWait(&r.rounds)
	}
	var open []uint
	for _, p := range r.cfg.Prios {
		if !r.closedIn[p] {
			open = append(open, p)
		}
	}
	if len(open) == 0 {
		return
	}
	p := open[pick%len(open)]
	r.emit(obs{E: "A", P: p})
	for idle := 0; idle < 3 && len(r.held) <= 3*int(r.cfg.H)+8; {
		progressed := false
		if r.cfg.incap(p) == 0 {
			if !r.parked[p].Load() {
				r.produce(p)
				progressed = true
			}
		} else {
			for len(r.ins[p]) < cap(r.ins[p]) {
				if r.produce(p) != nil {
					break
				}
				progressed = true
			}
		}
		synctest.Wait()
		for {
			got, _ := r.recv()
			if !got {
				break
			}
			progressed = true
		}
		if progressed {
			idle = 0
		} else {
			idle++
			idleWait(&r.rounds)
		}
	}
	note := ""
	if unfilledBase(rankDivider(r.cfg), r.cfg.Prios, r.cfg.H, p, uint(len(r.held))) {
		note = "unfilled-base-division"
	}
	r.emit(obs{E: "QA", P: p, Held: r.heldCounts(), Note: note})
}

// finish: close everything, release everything, drain; the discipline must close Output() and Err().
func (r *v2run) finish() {
	synctest.Wait()
	closeIdle := func() { // an unbuffered input is closed only after its parked writer got through (its W is already logged)
		for _, p := range r.cfg.Prios {
			if !r.closedIn[p] && !r.parked[p].Load() {
				r.closeIn(p)
			}
		}
	}
	closeIdle()
	outClosed := false
	for round := 0; round < 400 && !outClosed; round++ {
		for len(r.held) > 0 {
			r.release(r.held[0])
		}
		synctest.Wait()
		closeIdle()
		progressed := false
		for {
			got, closed := r.recv()
			if closed {
				outClosed = true
				break
			}
			if !got {
				break
			}
			progressed = true
		}
		if !progressed && !outClosed {
			idleWait(&r.rounds)
		}
	}
	defer close(r.stop) // writers that never got through are released only when the bubble is left
	if !outClosed {
		for _, p := range r.cfg.Prios {
			if r.recvCount[p] < r.nextItem[p] {
				r.emit(obs{E: "Starved", C: p, Note: "written items not delivered within the virtual deadline although everything received was released"})
				return
			}
		}
		r.emit(obs{E: "Deadline", Note: "output not closed within the virtual deadline after everything was closed and released"})
		return
	}
	r.emit(obs{E: "OC"})
	synctest.Wait()
	// C19: a closed Output() says "terminated": everything is quiescent now, so a goroutine of the library that is still there
	// (waiting for a release, say) is a leftover.  What the consumer still holds is released afterwards in any case.
	if n := moduleGoroutines(); n > 0 {
		r.emit(obs{E: "Leak", K: n, Note: fmt.Sprintf("goroutines of the library remain after Output() closed (%d delivered items not released yet)", len(r.held))})
	}
	for len(r.held) > 0 {
		r.release(r.held[0])
	}
	synctest.Wait()
	for {
		select {
		case err, ok := <-r.d.Err():
			if !ok {
				if r.faultBad && !r.sawErrBad {
					r.emit(obs{E: "NoErr", Note: "divider fault injected but Err() closed without ErrDividerBad"})
				}
				if r.sendsAfterBad.Load() > 0 {
					r.emit(obs{E: "SentAfterBad", Note: "items written to the output after the divider fault was detected"})
				}
				r.emit(obs{E: "EC"})
				synctest.Wait()
				if n := moduleGoroutines(); !r.exited.Load() || n > 0 {
					r.emit(obs{E: "Leak", K: n, Note: "goroutines of the library remain after Err() closed"})
				}
				return
			}
			note := errNote(err)
			if errors.Is(err, priority.ErrDividerBad) {
				r.sawErrBad = true
			}
			r.emit(obs{E: "EV", Note: note})
		default:
			r.emit(obs{E: "Deadline", Note: "Err() not closed after Output() closed"})
			return
		}
	}
}

func key(p uint) string { return strconv.Itoa(int(p)) }

func (r *v2run) compare(name string, isSched bool, st mstate) error {
	for _, p := range r.cfg.Prios {
		if isSched {
			if r.last.Actual[p] != st.Actual[key(p)] || r.last.Tactic[p] != st.Tactic[key(p)] || r.last.Drained[p] != st.Drained[key(p)] {
				return fmt.Errorf("snapshot p=%d actual %d/%d tactic %d/%d drained %v/%v (code/model)", p,
					r.last.Actual[p], st.Actual[key(p)], r.last.Tactic[p], st.Tactic[key(p)], r.last.Drained[p], st.Drained[key(p)])
			}
		}
		if !r.cfg.Saturated && r.cfg.incap(p) > 0 && len(r.ins[p]) != st.InLen[key(p)] {
			return fmt.Errorf("len(input %d) = %d, model %d", p, len(r.ins[p]), st.InLen[key(p)])
		}
	}
	if len(r.d.Output()) != st.OutLen {
		return fmt.Errorf("len(output) = %d, model %d", len(r.d.Output()), st.OutLen)
	}
	return nil
}

// replayPath steps the real discipline through one behaviour of the model and then runs the continuation.
func replayPath(t *testing.T, cfg Config, path []step, cont string) (res pathResult, log []any, faultBad bool) {
	synctest.Test(t, func(t *testing.T) {
		r := newV2(t, cfg, true)
		var err error
		started := false
		faultArmed := false
		i := 0
		for i = 0; i < len(path) && err == nil; i++ {
			st := path[i]
			en, isSched := evName[st.A]
			if cfg.Saturated {
				r.topUp()
			}
			if isSched {
				var ev priority.VerifEvent
				var got bool
				if len(st.S.FInfo) == 2 && !faultArmed {
					faultArmed = true
					r.faultKind = st.S.FInfo[0].(string)
					r.faultAt = r.divCalls + int(st.S.FInfo[1].(float64))
					r.emit(obs{E: "Fault", Note: r.faultKind})
				}
				if !started {
					ev, got = r.await()
					started = true
				} else {
					ev, got = r.next()
				}
				if got && ev.Ev == "Err" && st.A == "Closing" {
					ev, got = r.next()
				}
				switch {
				case !got:
					err = fmt.Errorf("scheduler produced no event, model expects %s", st.A)
				case ev.Ev == "Bad" && st.S.Bad:
					r.last = ev
				case ev.Ev != en:
					err = fmt.Errorf("scheduler event %s, model expects %s", ev.Ev, st.A)
				default:
					r.last = ev
				}
			} else {
				if !started { // environment acts before the scheduler's first step: the scheduler is parked at Start
					synctest.Wait()
				}
				switch st.A {
				case "Produce":
					err = r.produce(st.Arg)
				case "CloseIn":
					r.closeIn(st.Arg)
				case "Recv":
					if got, _ := r.recv(); !got {
						err = fmt.Errorf("output is empty, model expects an item")
					}
				case "Release":
					err = r.release(st.Arg)
				default:
					err = fmt.Errorf("unknown action %s", st.A)
				}
			}
			if err == nil && !(isSched && st.S.Bad) {
				err = r.compare(st.A, isSched, st.S)
			}
		}
		res.Steps = i
		if err != nil {
			res.Diverged, res.AtStep, res.Label = err.Error(), i-1, path[i-1].A
		}
		// continuation: free-running from the state the real code is in
		if !started {
			r.await()
		}
		if cont == "stall" && cfg.Saturated {
			// the precondition of C05 (data waiting continuously) can only be kept while the scheduler is gated
			r.stallGated()
		}
		r.free.Store(true)
		close(r.freeCh)
		close(r.gate)
		if cont == "stall" && !cfg.Saturated {
			r.stall()
		}
		if cont == "alone" {
			r.alone(len(path))
		}
		r.finish()
		log = r.log
		faultBad = r.faultBad
	})
	return res, log, faultBad
}

func readPaths(t *testing.T, fn func(n int, path []step)) {
	f, err := os.Open(os.Getenv("PATHS"))
	if err != nil {
		t.Fatal(err)
	}
	defer f.Close()
	sc := bufio.NewScanner(f)
	sc.Buffer(make([]byte, 1<<20), 1<<28)
	n := 0
	for sc.Scan() {
		var path []step
		if err := json.Unmarshal(sc.Bytes(), &path); err != nil {
			t.Fatal(err)
		}
		n++
		fn(n, path)
	}
}

// resetV2 is the header record of a v2 trace for Mon_Prio: in v2 an input channel is identified with its priority.
func resetV2(cfg Config, n int, cont string, fault bool) map[string]any {
	chprio := [][2]int{}
	for _, p := range cfg.Prios {
		chprio = append(chprio, [2]int{int(p), int(p)})
	}
	return map[string]any{"e": "Reset", "path": n, "H": cfg.H, "prios": cfg.Prios, "chans": cfg.Prios, "chprio": chprio,
		"live": cfg.Prios, "share": shareOf(cfg), "sat": cfg.Saturated, "fault": fault, "v1": false, "unordered": false, "cont": cont,
		"p": 0, "k": 0, "c": 0, "cfg": cfg}
}

func shareOf(cfg Config) [][2]int {
	dist := map[uint]uint{}
	rankDivider(cfg)(append([]uint(nil), cfg.Prios...), cfg.H, dist)
	out := [][2]int{}
	for _, p := range cfg.Prios {
		out = append(out, [2]int{int(p), int(dist[p])})
	}
	return out
}

// TestReplayV2: gated replay of model behaviours (B2) + adversarial continuation; writes
// replay_results.ndjson (conformance) and replay_events.ndjson (observations for the monitors).
func TestReplayV2(t *testing.T) {
	cfg := loadConfig(t)
	cont := os.Getenv("CONT")
	results := openOut(t, "replay_results.ndjson")
	defer results.close()
	events := openOut(t, "replay_events.ndjson")
	defer events.close()
	start := time.Now()
	steps, diverged := 0, 0
	readPaths(t, func(n int, path []step) {
		res, log, faultBad := replayPath(t, cfg, path, cont)
		res.Path = n
		steps += res.Steps
		if res.Diverged != "" {
			diverged++
		}
		results.put(res)
		events.put(resetV2(cfg, n, cont, faultBad))
		for _, o := range log {
			events.put(o)
		}
		events.w.Flush()
	})
	flushContract(t, "contract_replay.ndjson")
	t.Logf("REPLAYED paths=%d steps=%d diverged=%d wall=%v", results.n, steps, diverged, time.Since(start))
}
