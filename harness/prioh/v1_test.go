package prioh

import (
	"context"
	"encoding/json"
	"fmt"
	"math/rand"
	"os"
	"path/filepath"
	"runtime"
	"sort"
	"sync/atomic"
	"testing"
	"testing/synctest"
	"time"

	v1 "github.com/akramarenkov/cqos/priority"
)

// ---- spin watchdog (outside the bubble): a goroutine of the code under test that spins without ever blocking
// makes synctest.Wait() hang for ever; if the harness makes no step for 10 s of wall time the watchdog dumps all
// stacks next to the marker of the current scenario and exits with status 3 (the driver judges the dump).
var heartbeat atomic.Int64
var marker atomic.Value // string: JSON of the scenario being run

func startWatchdog(dir string) func() {
	stop := make(chan struct{})
	go func() {
		last, idleSince := heartbeat.Load(), time.Now()
		for {
			select {
			case <-stop:
				return
			case <-time.After(500 * time.Millisecond):
			}
			if cur := heartbeat.Load(); cur != last {
				last, idleSince = cur, time.Now()
				continue
			}
			if time.Since(idleSince) > time.Duration(envInt("WATCHDOG_S", 10))*time.Second {
				buf := make([]byte, 1<<22)
				n := runtime.Stack(buf, true)
				os.WriteFile(filepath.Join(dir, "spin_dump.txt"), buf[:n], 0o644)
				m, _ := marker.Load().(string)
				os.WriteFile(filepath.Join(dir, "spin_marker.json"), []byte(m), 0o644)
				os.Exit(3)
			}
		}
	}()
	return func() { close(stop) }
}

type sev struct { // scheduler event with snapshot, for conformance (Trace_PrioV1)
	E         string    `json:"e"`
	Ev        string    `json:"ev"`
	P         uint      `json:"p"`
	K         int       `json:"k"`
	C         uint      `json:"c"`
	Flag      bool      `json:"flag"`
	Actual    [][2]uint `json:"actual"`
	Tactic    [][2]uint `json:"tactic"`
	Strategic [][2]uint `json:"strategic"`
	Prios     []uint    `json:"prios"`
}

type v1run struct {
	cfg      Config
	d        *v1.Discipline[int]
	ch       map[int]chan int
	chPrio   map[int]uint
	reg      map[uint]int
	out      chan v1.Prioritized[int]
	fb       chan uint
	ctx      context.Context
	cancel   context.CancelFunc
	evCh     chan v1.VerifEvent
	gate     chan struct{}
	free     atomic.Bool
	freeCh   chan struct{}
	atGate   bool
	log      []any
	held     []uint
	nextItem map[int]int
	closedIn map[int]bool
	parked   map[int]*atomic.Bool
	expect   map[int]int
	stop     chan struct{}
	exited   atomic.Bool
	rounds   atomic.Int64

	stopReq, cancelReq, graceReq  bool
	stopRet, graceRet             atomic.Bool
	stopRetLogged, graceRetLogged bool
	stop2Req, stop2RetLogged      bool // a second Stop() overlapping the first
	stop2Ret                      atomic.Bool
	grace2Req, grace2RetLogged    bool // a second GracefulStop() overlapping the first
	grace2Ret                     atomic.Bool
	pendingCtl                    atomic.Int32
	addRm                         atomic.Int32
	ctlDone                       chan obs
	addsLeft                      [][2]int
	rmvsLeft                      []int
	divCalls, faultAt             int
	faultKind                     string
	faultBad                      bool
	sendsAfterBad                 int
	pressure                      int
	pressureOnly                  uint
	removedOnce                   bool
	sawErrBad                     bool
}

func (r *v1run) emit(o any) { r.log = append(r.log, o) }

func pairsU(m map[uint]uint) [][2]uint {
	out := make([][2]uint, 0, len(m))
	for k, v := range m {
		out = append(out, [2]uint{k, v})
	}
	sort.Slice(out, func(i, j int) bool { return out[i][0] > out[j][0] })
	return out
}

func (r *v1run) hook(ev v1.VerifEvent) {
	if len(r.cfg.Vals) != 0 { // the rest of the harness talks in priority identifiers
		ev.Priority = r.cfg.rank(ev.Priority)
		ev.Actual, ev.Tactic, ev.Strategic = r.cfg.rankMap(ev.Actual), r.cfg.rankMap(ev.Tactic), r.cfg.rankMap(ev.Strategic)
		ps := make([]uint, len(ev.Priorities))
		for i, p := range ev.Priorities {
			ps[i] = r.cfg.rank(p)
		}
		ev.Priorities = ps
	}
	if ev.Ev == "Exit" {
		r.exited.Store(true)
	}
	if ev.Ev == "RoundEnd" {
		r.rounds.Add(1)
	}
	if r.free.Load() {
		return
	}
	select {
	case r.evCh <- ev:
		<-r.gate
	case <-r.freeCh: // the harness switched to free-running while this step was in progress
	}
}

func newV1(t *testing.T, cfg Config, gated bool) *v1run {
	r := &v1run{cfg: cfg, ch: map[int]chan int{}, chPrio: map[int]uint{}, reg: map[uint]int{}, nextItem: map[int]int{},
		closedIn: map[int]bool{}, parked: map[int]*atomic.Bool{}, expect: map[int]int{}, evCh: make(chan v1.VerifEvent),
		gate: make(chan struct{}), freeCh: make(chan struct{}), stop: make(chan struct{}), ctlDone: make(chan obs, 16)}
	r.free.Store(!gated)
	for c := 1; c <= cfg.NC; c++ {
		r.ch[c] = make(chan int, cfg.InCap[fmt.Sprint(c)])
		r.parked[c] = &atomic.Bool{}
	}
	inputs := map[uint]<-chan int{}
	for _, p := range cfg.Prios {
		if c := cfg.InitChan[key(p)]; c != 0 {
			inputs[cfg.val(p)] = r.ch[c]
			r.reg[p] = c
			r.chPrio[c] = p
		}
	}
	for _, a := range cfg.Adds {
		r.chPrio[a[0]] = uint(a[1])
	}
	r.addsLeft = append(r.addsLeft, cfg.Adds...)
	r.rmvsLeft = append(r.rmvsLeft, cfg.Rmvs...)
	r.out = make(chan v1.Prioritized[int], cfg.OutCap)
	r.fb = make(chan uint, cfg.FbCap)
	r.ctx, r.cancel = context.WithCancel(context.Background())
	base := dividerV1(cfg.Div)
	div := func(ps []uint, d uint, dist map[uint]uint) map[uint]uint {
		r.divCalls++
		rps := make([]uint, len(ps))
		for i, p := range ps {
			rps[i] = cfg.rank(p)
		}
		noteContract(cfg.Prios, cfg.H, rps, d, dist != nil, true)
		before := uint(0)
		for _, v := range dist {
			before += v
		}
		res := base(ps, d, dist)
		if r.faultAt != 0 && r.divCalls == r.faultAt && len(ps) > 0 && res != nil {
			r.faultAt = 0
			done := false
			switch r.faultKind {
			case "over":
				res[ps[0]]++
				done = true
			case "under":
				for _, p := range ps {
					if res[p] > 0 {
						res[p]--
						done = true
						break
					}
				}
			}
			after := uint(0)
			for _, v := range res {
				after += v
			}
			r.faultBad = done && after != 0 && after-before != d
		}
		return res
	}
	if cfg.Saturated {
		r.topUp()
	}
	v1.VerifHook = r.hook
	d, err := v1.New(v1.Opts[int]{Ctx: r.ctx, Divider: div, Feedback: r.fb, HandlersQuantity: cfg.H, Inputs: inputs, Output: r.out})
	v1.VerifHook = nil
	if err != nil {
		t.Fatalf("v1.New: %v", err)
	}
	for p := range inputs { // the options map is the caller's again once New has returned
		delete(inputs, p)
	}
	r.d = d
	return r
}

// topUp (saturated configurations, C05): every registered open buffered input is kept full, so that at every poll of the
// scheduler "data has been waiting continuously since the discipline was created"
func (r *v1run) topUp() {
	for _, p := range r.cfg.Prios {
		c, ok := r.reg[p]
		if !ok || r.closedIn[c] || cap(r.ch[c]) == 0 || (r.pressure > 0 && r.pressureOnly != 0 && p != r.pressureOnly) {
			continue
		}
		for len(r.ch[c]) < cap(r.ch[c]) && (r.cfg.Saturated || r.nextItem[c] < r.cfg.Items[fmt.Sprint(c)]) {
			r.nextItem[c]++
			r.emit(obs{E: "W", C: uint(c), K: r.nextItem[c]})
			r.ch[c] <- c*1000 + r.nextItem[c]
			r.expect[c]++
		}
	}
}

func (r *v1run) next() (v1.VerifEvent, bool) {
	if r.cfg.Saturated && !r.free.Load() {
		r.topUp()
	}
	// "pressure" configurations: once a RemoveInput has returned, the remaining inputs are kept full for a while and nothing is
	// released: whatever the discipline still has set aside for the removed priority must not be handed out a second time
	if r.pressure > 0 && !r.free.Load() {
		r.pressure--
		r.topUp()
	}
	if r.atGate {
		r.atGate = false
		r.gate <- struct{}{}
	}
	return r.await()
}

func (r *v1run) await() (v1.VerifEvent, bool) {
	for d := 2 * time.Nanosecond; d <= 64*time.Microsecond; d *= 2 { // idle delay / interrupt period may lie between two hooks
		synctest.Wait()
		if ev, ok := r.poll(); ok {
			return ev, true
		}
		time.Sleep(d)
	}
	synctest.Wait()
	return r.poll()
}

// poll logs a scheduler event that is waiting to be delivered (the scheduler reached its next hook)
func (r *v1run) poll() (v1.VerifEvent, bool) {
	select {
	case ev := <-r.evCh:
		r.atGate = true
		if ev.Ev == "Send" && r.faultBad {
			r.sendsAfterBad++ // C15: a division of this or an earlier step was bad, and the discipline still writes to the output
		}
		r.emit(sev{E: "S", Ev: ev.Ev, P: ev.Priority, Flag: ev.Flag, Actual: pairsU(ev.Actual), Tactic: pairsU(ev.Tactic),
			Strategic: pairsU(ev.Strategic), Prios: ev.Priorities})
		return ev, true
	default:
		return v1.VerifEvent{}, false
	}
}

// observe is called after every step: control calls that returned, elements the discipline took from the inputs
func (r *v1run) observe() {
	heartbeat.Add(1)
	synctest.Wait()
	// a scheduler that was blocked in a channel operation (no event when it was last stepped) may have been released by the
	// environment's last action and reached its next hook: log that step now, in its true position
	if !r.atGate && !r.free.Load() {
		r.poll()
	}
	// elements taken first: while gated, one scheduler step contains at most one channel operation, so a take and the
	// return of a control call never fall into the same observation; while free-running the order inside one observation
	// is unknown and this order is the one that can never raise a false C17 alarm
	for c := 1; c <= r.cfg.NC; c++ {
		if cap(r.ch[c]) == 0 {
			continue
		}
		for n := len(r.ch[c]); n < r.expect[c]; r.expect[c]-- {
			r.emit(obs{E: "Taken", C: uint(c)})
		}
	}
	var done []obs
	for {
		select {
		case o := <-r.ctlDone:
			done = append(done, o)
			continue
		default:
		}
		break
	}
	for _, o := range done { // takes first, for the same reason
		if o.E == "Taken" {
			r.emit(o)
		}
	}
	for _, o := range done {
		if o.E == "Taken" {
			continue
		}
		r.emit(o)
		if o.E == "AddRet" {
			if old, ok := r.reg[o.P]; ok && old != int(o.C) {
				r.emit(obs{E: "Dead", C: uint(old)})
			}
			r.reg[o.P] = int(o.C)
		}
		if o.E == "RmvRet" {
			delete(r.reg, o.P)
			r.removedOnce = true
			if r.cfg.Extra["pressure_after_remove"] == true {
				r.pressure = 60
				r.pressureOnly = 0 // two runs out of three: only ONE of the remaining priorities gets the data, the others stay idle
				var left []uint
				for _, q := range r.cfg.Prios {
					if _, ok := r.reg[q]; ok {
						left = append(left, q)
					}
				}
				if k := len(r.log) % 3; k < 2 && len(left) > 0 {
					r.pressureOnly = left[(len(r.log)/3+k)%len(left)]
				}
			}
		}
	}
	if r.stopRet.Load() && !r.stopRetLogged {
		r.stopRetLogged = true
		r.emit(obs{E: "StopRet"})
	}
	if r.graceRet.Load() && !r.graceRetLogged {
		r.graceRetLogged = true
		r.emit(obs{E: "GraceRet"})
	}
	if r.grace2Ret.Load() && !r.grace2RetLogged {
		r.grace2RetLogged = true
		r.emit(obs{E: "GraceRet"})
	}
	if r.stop2Ret.Load() && !r.stop2RetLogged {
		r.stop2RetLogged = true
		if !r.exited.Load() {
			r.emit(obs{E: "StopRetEarly", Note: "a second, overlapping Stop() returned while the discipline had not terminated"})
		}
		r.emit(obs{E: "Stop2Ret"})
	}
}

func (r *v1run) canProduce(c int) bool {
	if r.closedIn[c] || r.nextItem[c] >= r.cfg.Items[fmt.Sprint(c)] {
		return false
	}
	// "quiet" configurations: until the planned RemoveInput has returned only the priority that is going to be removed gets data
	if r.cfg.Extra["quiet_until_remove"] == true && !r.removedOnce && len(r.cfg.Rmvs) > 0 && r.chPrio[c] != uint(r.cfg.Rmvs[0]) {
		return false
	}
	if cap(r.ch[c]) == 0 {
		return !r.parked[c].Load()
	}
	return len(r.ch[c]) < cap(r.ch[c])
}

func (r *v1run) produce(c int) {
	r.nextItem[c]++
	k := r.nextItem[c]
	r.emit(obs{E: "W", C: uint(c), K: k})
	v := c*1000 + k
	if cap(r.ch[c]) == 0 {
		r.parked[c].Store(true)
		go func(flag *atomic.Bool) {
			select {
			case r.ch[c] <- v:
				r.ctlDone <- obs{E: "Taken", C: uint(c)}
			case <-r.stop:
			}
			flag.Store(false)
		}(r.parked[c])
		return
	}
	r.ch[c] <- v
	r.expect[c]++
}

func (r *v1run) closeIn(c int) {
	close(r.ch[c])
	r.closedIn[c] = true
	r.emit(obs{E: "C", C: uint(c)})
}

func (r *v1run) recv() bool {
	select {
	case x := <-r.out:
		x.Priority = r.cfg.rank(x.Priority)
		r.held = append(r.held, x.Priority)
		r.emit(obs{E: "R", P: x.Priority, C: uint(x.Item / 1000), K: x.Item % 1000})
		return true
	default:
		return false
	}
}

func (r *v1run) release(i int) {
	p := r.held[i]
	r.held = append(r.held[:i], r.held[i+1:]...)
	r.emit(obs{E: "L", P: p})
	go func() {
		select {
		case r.fb <- r.cfg.val(p):
		case <-r.stop:
		}
	}()
}

func (r *v1run) ctl(name string, fn func(), done obs) {
	r.emit(obs{E: name, P: done.P, C: done.C})
	r.pendingCtl.Add(1)
	go func() {
		fn()
		r.pendingCtl.Add(-1)
		if done.E != "" {
			r.ctlDone <- done
		}
	}()
}

func (r *v1run) terminating() bool { return r.stopReq || r.cancelReq || r.graceReq }

// envAction performs one random enabled environment action; false if none is enabled.
func (r *v1run) envAction(rnd *rand.Rand) bool {
	type act func()
	var acts []act
	for c := 1; c <= r.cfg.NC; c++ {
		c := c
		if r.cfg.Saturated {
			continue
		}
		if r.canProduce(c) {
			acts = append(acts, func() { r.produce(c) }, func() { r.produce(c) })
		}
		if !r.closedIn[c] && r.nextItem[c] >= r.cfg.Items[fmt.Sprint(c)] && !r.parked[c].Load() {
			acts = append(acts, func() { r.closeIn(c) })
		}
	}
	if len(r.out) > 0 && r.cfg.Extra["no_consumer"] != true { // no_consumer: nobody reads the output, the scheduler ends up blocked in send
		acts = append(acts, func() { r.recv() }, func() { r.recv() })
	}
	if len(r.held) > 0 && r.pressure == 0 && !(r.stopReq && r.cfg.Extra["silent_after_stop"] == true) {
		acts = append(acts, func() { r.release(rnd.Intn(len(r.held))) })
	}
	if len(acts) == 0 {
		return false
	}
	if r.cfg.Extra["eager_release"] == true && len(r.held) > 0 && r.pressure == 0 && rnd.Intn(4) != 0 {
		r.release(rnd.Intn(len(r.held))) // handlers that finish quickly: most of the time whatever is held is released at once
		return true
	}
	acts[rnd.Intn(len(acts))]()
	return true
}

func (r *v1run) addRmPending() int32 { return r.addRm.Load() }

// control issues a planned control call if its guard holds (no AddInput/RemoveInput call is pending when a
// terminating call is made and vice versa: a call racing with termination panics in v1 - observation N3, no property)
func (r *v1run) control(what string) bool {
	if r.addRmPending() != 0 || r.exited.Load() {
		return false
	}
	switch what {
	case "stop":
		if r.stopReq {
			if !r.stop2Req && !r.stopRet.Load() { // a second call while the first is pending owes the same guarantee when it returns
				r.stop2Req = true
				r.ctl("Stop2", func() { r.d.Stop(); r.stop2Ret.Store(true) }, obs{})
			}
			return true
		}
		r.stopReq = true
		r.ctl("Stop", func() { r.d.Stop(); r.stopRet.Store(true) }, obs{})
	case "cancel":
		if r.cancelReq {
			return true
		}
		r.cancelReq = true
		r.emit(obs{E: "Cancel"})
		r.cancel()
	case "grace":
		if r.graceReq && !r.stopReq && !r.cancelReq && !r.grace2Req && !r.graceRet.Load() {
			r.grace2Req = true // a second call while the first is pending: its return is judged like the first one's
			r.ctl("Grace2", func() { r.d.GracefulStop(); r.grace2Ret.Store(true) }, obs{})
			return true
		}
		if r.terminating() {
			return true
		}
		r.graceReq = true
		r.ctl("Grace", func() { r.d.GracefulStop(); r.graceRet.Store(true) }, obs{})
	case "add":
		if r.terminating() || r.faultBad || len(r.addsLeft) == 0 {
			return true
		}
		a := r.addsLeft[0]
		r.addsLeft = r.addsLeft[1:]
		r.addRm.Add(1)
		c, p := a[0], uint(a[1])
		r.ctl("AddCall", func() { r.d.AddInput(r.ch[c], r.cfg.val(p)); r.addRm.Add(-1) }, obs{E: "AddRet", C: uint(c), P: p})
	case "rmv":
		if r.terminating() || r.faultBad || len(r.rmvsLeft) == 0 {
			return true
		}
		p := uint(r.rmvsLeft[0])
		r.rmvsLeft = r.rmvsLeft[1:]
		c, ok := r.reg[p]
		if !ok {
			return true
		}
		r.addRm.Add(1)
		r.ctl("RmvCall", func() { r.d.RemoveInput(r.cfg.val(p)); r.addRm.Add(-1) }, obs{E: "RmvRet", C: uint(c), P: p})
	}
	return true
}

func (r *v1run) heldCounts() [][2]int {
	m := map[uint]int{}
	for _, p := range r.held {
		m[p]++
	}
	out := [][2]int{}
	for _, p := range r.cfg.Prios {
		out = append(out, [2]int{int(p), m[p]})
	}
	return out
}

// waitFor polls cond under the virtual clock; the discipline gets rounds*3 ns of virtual time.
func (r *v1run) waitFor(rounds int, cond func() bool) bool {
	for i := 0; i < rounds/4+2; i++ { // every step lets the scheduler complete at least two rounds (or finds it blocked)
		r.observe()
		if cond() {
			return true
		}
		idleWait(&r.rounds)
	}
	return cond()
}

func (r *v1run) drainErr() {
	for {
		select {
		case err, ok := <-r.d.Err():
			if !ok {
				r.emit(obs{E: "EC"})
				return
			}
			note := errNote(err)
			if err != nil {
				if note == "ErrDividerBad" {
					r.sawErrBad = true
				}
			}
			r.emit(obs{E: "EV", Note: note})
		default:
			return
		}
	}
}

// finish: free-running end game. After a stop/cancel request the environment gives NO help (nothing is released,
// nothing is read): the call must still return. Otherwise everything is closed, a graceful stop is requested,
// and every item is received and released until GracefulStop returns.
func (r *v1run) finish() {
	for i := 0; i < 300 && r.addRmPending() > 0 && !r.exited.Load(); i++ { // let pending AddInput/RemoveInput calls return while still gated
		r.next()
		r.observe()
	}
	if r.cfg.Saturated && !r.terminating() && !r.faultBad && !r.exited.Load() {
		r.satStall()
	}
	r.emit(obs{E: "Free"}) // end of the gated (fully logged) prefix validated by Trace_PrioV1
	r.free.Store(true)
	close(r.freeCh)
	close(r.gate)
	r.observe()
	switch {
	case r.faultBad:
		ok := r.waitFor(400, func() bool {
			for len(r.held) > 0 {
				r.release(0)
			}
			for r.recv() {
			}
			r.drainErr()
			return r.exited.Load()
		})
		r.drainErr()
		if !ok {
			r.emit(obs{E: "Deadline", Note: "no termination after the divider fault although everything was released"})
		} else if !r.sawErrBad {
			r.emit(obs{E: "NoErr", Note: "divider fault injected but Err() closed without ErrDividerBad"})
		}
		if r.sendsAfterBad > 0 {
			r.emit(obs{E: "SentAfterBad", K: r.sendsAfterBad, Note: "items written to the output after a division returned a bad total"})
		}
	case r.stopReq || r.cancelReq:
		if r.stopReq {
			if !r.waitFor(200, func() bool { return r.stopRet.Load() }) {
				r.emit(obs{E: "StopHang", Note: "Stop() has not returned within the virtual deadline, no environment help"})
			}
		}
		if !r.waitFor(200, func() bool { return r.exited.Load() }) {
			r.emit(obs{E: "CancelHang", Note: "discipline has not terminated within the virtual deadline after stop/cancel"})
		}
		before := len(r.out)
		r.waitFor(20, func() bool { return false })
		if len(r.out) > before {
			r.emit(obs{E: "OutGrew", Note: "output channel grew after the discipline reported termination"})
		}
		for r.recv() { // what was delivered must still be an in-order duplicate-free subsequence
		}
		r.drainErr()
	case r.cfg.Extra["alone"] == true && !r.graceReq && r.aloneScenario():
		fallthrough
	case r.cfg.Extra["stall"] == true && !r.graceReq && r.stallScenario():
		fallthrough
	default:
		// a control call racing with termination panics in v1 (send on closed channel; observation N3, no property):
		// let pending AddInput/RemoveInput calls return first, helping the scheduler to its top select
		if r.addRmPending() != 0 {
			r.waitFor(600, func() bool {
				for len(r.held) > 0 {
					r.release(0)
				}
				for r.recv() {
				}
				return r.addRmPending() == 0
			})
		}
		for c := 1; c <= r.cfg.NC; c++ {
			if !r.closedIn[c] && !r.parked[c].Load() {
				r.closeIn(c)
			}
		}
		if !r.graceReq {
			r.graceReq = true
			r.ctl("Grace", func() { r.d.GracefulStop(); r.graceRet.Store(true) }, obs{})
		}
		// first withhold the releases for a while: GracefulStop must not return while delivered items are unreleased
		r.waitFor(25, func() bool { return r.graceRet.Load() })
		ok := r.waitFor(1500, func() bool {
			for len(r.held) > 0 {
				r.release(0)
			}
			for r.recv() {
			}
			for c := 1; c <= r.cfg.NC; c++ { // an unbuffered channel is closed once its parked writer got through
				if !r.closedIn[c] && !r.parked[c].Load() {
					r.closeIn(c)
				}
			}
			return r.graceRet.Load()
		})
		r.observe()
		if !ok {
			r.emit(obs{E: "GraceHang", Note: "GracefulStop() has not returned although all inputs are closed and everything was released"})
		}
		r.drainErr()
	}
	if !r.exited.Load() { // the verdict is already recorded; now get the bubble clean: cancel, release and read everything
		r.cancel()
		r.waitFor(400, func() bool {
			for len(r.held) > 0 {
				r.release(0)
			}
			for r.recv() {
			}
			return r.exited.Load()
		})
	}
	close(r.stop)
	r.observe()
	if r.stopRet.Load() || r.graceRet.Load() {
		synctest.Wait()
		if n := moduleGoroutines(); !r.exited.Load() || n > 0 {
			r.emit(obs{E: "Leak", K: n, Note: "goroutines of the library remain after Stop/GracefulStop returned"})
		}
	}
}

func resetV1(cfg Config, n int, fault bool) map[string]any {
	chans, chprio, live := []int{}, [][2]int{}, []int{}
	cp := map[int]int{}
	for _, p := range cfg.Prios {
		if c := cfg.InitChan[key(p)]; c != 0 {
			cp[c] = int(p)
			live = append(live, c)
		}
	}
	for _, a := range cfg.Adds {
		cp[a[0]] = a[1]
	}
	for c := 1; c <= cfg.NC; c++ {
		chans = append(chans, c)
		chprio = append(chprio, [2]int{c, cp[c]})
	}
	share := [][2]int{}
	dist := map[uint]uint{}
	if cfg.Saturated { // the share of C05: the real divider on (all configured priorities, highest first; HandlersQuantity)
		vals := make([]uint, len(cfg.Prios))
		for i, p := range cfg.Prios {
			vals[i] = cfg.val(p)
		}
		dist = dividerV1(cfg.Div)(vals, cfg.H, nil)
	}
	for _, p := range cfg.Prios {
		share = append(share, [2]int{int(p), int(dist[cfg.val(p)])})
	}
	return map[string]any{"e": "Reset", "path": n, "H": cfg.H, "prios": cfg.Prios, "chans": chans, "chprio": chprio, "live": live,
		"share": share, "sat": cfg.Saturated, "fault": fault, "v1": true, "unordered": false, "cont": "v1", "p": 0, "k": 0, "c": 0, "cfg": cfg.Name}
}

// runV1 executes one seeded gated schedule against the real v1 discipline and returns the recorded trace.
func runV1(t *testing.T, cfg Config, seed int64, steps int, flush func(log []any, fault bool)) {
	synctest.Test(t, func(t *testing.T) {
		rnd := rand.New(rand.NewSource(seed))
		r := newV1(t, cfg, true)
		if cfg.Cancel && seed%9 == 4 { // cancellation from point zero: before the scheduler made its first step
			r.control("cancel")
		}
		faultStep := -1
		if cfg.Faults > 0 {
			faultStep = rnd.Intn(steps)
		}
		type planned struct {
			at   int
			what string
		}
		var plan []planned
		var terms []string
		if cfg.Stop {
			terms = append(terms, "stop")
		}
		if cfg.Cancel {
			terms = append(terms, "cancel")
		}
		if cfg.Graceful {
			terms = append(terms, "grace")
		}
		if len(terms) > 0 && rnd.Intn(5) != 0 {
			plan = append(plan, planned{rnd.Intn(steps), terms[rnd.Intn(len(terms))]})
			if rnd.Intn(4) == 0 { // a second terminating call later
				plan = append(plan, planned{rnd.Intn(steps), terms[rnd.Intn(len(terms))]})
			}
			if cfg.Graceful && len(terms) > 1 && rnd.Intn(4) == 0 {
				// a rough stop / cancellation while a graceful stop is pending (inputs still open)
				at := rnd.Intn(steps/3 + 1)
				plan = []planned{{at, "grace"}, {at + 1 + rnd.Intn(steps-at), terms[rnd.Intn(len(terms)-1)]}}
			}
		}
		for range cfg.Adds {
			plan = append(plan, planned{rnd.Intn(steps), "add"})
		}
		for range cfg.Rmvs {
			plan = append(plan, planned{rnd.Intn(steps), "rmv"})
		}
		for i := 0; i < steps || (r.pressure > 0 && i < steps+400); i++ { // a pressure phase that has begun is played to its end
			if i == faultStep {
				r.faultKind = []string{"over", "under"}[rnd.Intn(2)]
				r.faultAt = r.divCalls + 1 + rnd.Intn(2)
			}
			acted := false
			for j := range plan {
				if plan[j].at <= i && plan[j].what != "" && r.control(plan[j].what) {
					plan[j].what = ""
					acted = true
					break
				}
			}
			if !acted && (rnd.Intn(100) < 55 || !r.envAction(rnd)) {
				if r.exited.Load() {
					break
				}
				r.next()
			}
			r.observe()
		}
		r.finish()
		flush(r.log, r.faultBad) // inside the bubble: the record survives even if the bubble cannot be left cleanly
	})
}

// TestRecordV1 writes v1_events.ndjson: gated random schedules of the real v1 discipline, every scheduler step (S records
// with snapshots, for Trace_PrioV1) interleaved with the environment's observations (for Mon_Prio).
func TestRecordV1(t *testing.T) {
	cfg := loadConfig(t)
	dir := os.Getenv("OUT_DIR")
	defer startWatchdog(dir)()
	events := openOut(t, "v1_events.ndjson")
	defer events.close()
	n := envInt("V1_RUNS", 200)
	base := int64(envInt("VERIF_SEED", 1))*7919 + int64(len(cfg.Name))
	only := envInt("ONLY_RUN", 0)
	for i := 1; i <= n; i++ {
		if only != 0 && i != only {
			continue
		}
		seed := base*100003 + int64(i)
		steps := 20 + (i*37)%140
		m, _ := json.Marshal(map[string]any{"cfg": cfg.Name, "run": i, "seed": seed, "steps": steps})
		marker.Store(string(m))
		runV1(t, cfg, seed, steps, func(log []any, fault bool) {
			rec := resetV1(cfg, i, fault)
			rec["seed"], rec["steps"] = seed, steps
			events.put(rec)
			for _, o := range log {
				events.put(o)
			}
			events.w.Flush()
		})
	}
	flushContract(t, "contract_v1.ndjson")
	t.Logf("RECORDED v1 runs=%d records=%d", n, events.n)
}

// aloneScenario (C06): bring the discipline to "nothing in flight", then give data to ONE registered channel only and
// never release: that priority must be granted all H handlers. Always returns false (the graceful end game follows).
func (r *v1run) aloneScenario() bool {
	r.waitFor(60, func() bool {
		for len(r.held) > 0 {
			r.release(0)
		}
		for r.recv() {
		}
		return false
	})
	var open []uint
	for _, p := range r.cfg.Prios {
		if c, ok := r.reg[p]; ok && !r.closedIn[c] && cap(r.ch[c]) > 0 {
			open = append(open, p)
		}
	}
	if len(open) == 0 {
		return false
	}
	p := open[len(r.log)%len(open)]
	c := r.reg[p]
	var regd []uint
	for _, q := range r.cfg.Prios {
		if _, ok := r.reg[q]; ok {
			regd = append(regd, q)
		}
	}
	note := "non-fatal-config"
	if !v1.IsNonFatalConfig(regd, dividerV1(r.cfg.Div), r.cfg.H) {
		note = "fatal-config" // some priority of some sub-list gets nothing from the divider (v1 accepts such configurations: F4)
	}
	r.emit(obs{E: "A", P: p, C: uint(c), Note: note})
	for idle := 0; idle < 3 && len(r.held) <= 3*int(r.cfg.H)+8; {
		progressed := false
		for len(r.ch[c]) < cap(r.ch[c]) {
			r.nextItem[c]++
			r.emit(obs{E: "W", C: uint(c), K: r.nextItem[c]})
			r.ch[c] <- c*1000 + r.nextItem[c]
			r.expect[c]++
			progressed = true
		}
		r.observe()
		for r.recv() {
			progressed = true
		}
		if progressed {
			idle = 0
		} else {
			idle++
			idleWait(&r.rounds)
		}
	}
	qnote := ""
	d1 := dividerV1(r.cfg.Div)
	if unfilledBase(func(ps []uint, d uint, dist map[uint]uint) {
		for k, v := range d1(ps, d, nil) {
			dist[k] += v
		}
	}, regd, r.cfg.H, p, uint(len(r.held))) {
		qnote = "unfilled-base-division"
	}
	r.emit(obs{E: "QA", P: p, Held: r.heldCounts(), Note: qnote})
	return false
}

// satStall (C05): still gated and topped up before every scheduler step, everything delivered is received and nothing is
// released any more, until the scheduler has made many steps without a delivery: no release is outstanding then, and every
// priority must hold exactly its share (Q record).
func (r *v1run) satStall() {
	for quiet, i := 0, 0; i < 6000 && quiet < 80 && len(r.held) <= 3*int(r.cfg.H)+8 && !r.exited.Load(); i++ {
		before := len(r.held)
		r.next()
		r.observe()
		for r.recv() {
			r.observe() // a scheduler blocked in its write to the output got through: its step is logged in its true position
		}
		if len(r.held) > before {
			quiet = 0
		} else {
			quiet++
		}
	}
	r.emit(obs{E: "Q", Held: r.heldCounts()})
}

// stallScenario (C01 / C17 adversarial continuation): keep every registered open buffered channel full, receive everything,
// release nothing until the discipline stops handing out items; then the graceful end game follows. Always returns false.
func (r *v1run) stallScenario() bool {
	r.waitFor(100, func() bool { return r.addRmPending() == 0 })
	for idle := 0; idle < 3 && len(r.held) <= 3*int(r.cfg.H)+8; {
		progressed := false
		for _, p := range r.cfg.Prios {
			c, ok := r.reg[p]
			if !ok || r.closedIn[c] || cap(r.ch[c]) == 0 {
				continue
			}
			for len(r.ch[c]) < cap(r.ch[c]) {
				r.nextItem[c]++
				r.emit(obs{E: "W", C: uint(c), K: r.nextItem[c]})
				r.ch[c] <- c*1000 + r.nextItem[c]
				r.expect[c]++
				progressed = true
			}
		}
		r.observe()
		for r.recv() {
			progressed = true
		}
		if progressed {
			idle = 0
		} else {
			idle++
			idleWait(&r.rounds)
		}
	}
	r.emit(obs{E: "Q", Held: r.heldCounts()})
	return false
}
