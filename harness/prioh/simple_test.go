package prioh

import (
	"context"
	"encoding/json"
	"fmt"
	"math/rand"
	"os"
	"runtime"
	"strings"
	"sync"
	"sync/atomic"
	"testing"
	"testing/synctest"
	"time"

	v1 "github.com/akramarenkov/cqos/priority"
	"github.com/akramarenkov/cqos/v2/priority"
	"github.com/akramarenkov/cqos/v2/priority/simple"
)

// Simplified disciplines (v2 priority/simple, v1 priority.NewSimple) in lock-step inside a bubble.
// Handle is the observation point: entry = "R" (an item was handed to a handler), return = "L" (the library
// issues the release right after Handle returns), so Mon_Prio's C01 reads "concurrent Handle calls <= H" and C02
// "Handle invoked exactly once per item" (Reset.unordered: handler goroutines log their entries in any order).

type srun struct {
	cfg                                     Config
	ver                                     int
	ch                                      map[int]chan int
	closed                                  map[int]bool
	next                                    map[int]int
	mu                                      sync.Mutex
	log                                     []any
	running                                 []int // items inside Handle, in entry order
	gates                                   map[int]chan struct{}
	ctx                                     context.Context
	cancel                                  context.CancelFunc
	errCh                                   <-chan error
	stopFn                                  func()
	graceFn                                 func()
	stopReq, cancelReq, graceReq            bool
	stopRet, graceRet                       atomic.Bool
	stopRetLogged, graceRetLogged, ecLogged bool
	stop2Req, stop2RetLogged                bool // a second Stop() overlapping the first
	stop2Ret                                atomic.Bool
	grace2Req, grace2RetLogged              bool // a second GracefulStop() overlapping the first
	grace2Ret                               atomic.Bool
	sawErrBad                               bool
	rounds                                  atomic.Int64 // rounds of the inner discipline's scheduler (counting hook)
}

func (r *srun) emit(o any) {
	r.mu.Lock()
	r.log = append(r.log, o)
	r.mu.Unlock()
}

func (r *srun) handle(ctx context.Context, item int) {
	gate := make(chan struct{})
	r.mu.Lock()
	c := item / 1000
	r.log = append(r.log, obs{E: "R", P: uint(r.cfg.chanPrio(c)), C: uint(c), K: item % 1000})
	r.running = append(r.running, item)
	r.gates[item] = gate
	r.mu.Unlock()
	select {
	case <-gate:
	case <-ctx.Done(): // v1: Handle honours its context - but takes a moment to wind down
		time.Sleep(7 * time.Nanosecond)
	}
	r.mu.Lock()
	for i, it := range r.running {
		if it == item {
			r.running = append(r.running[:i], r.running[i+1:]...)
			break
		}
	}
	delete(r.gates, item)
	r.log = append(r.log, obs{E: "L", P: uint(r.cfg.chanPrio(c))})
	r.mu.Unlock()
}

func (c Config) chanPrio(ch int) int {
	for _, p := range c.Prios {
		if c.InitChan[key(p)] == ch {
			return int(p)
		}
	}
	return 0
}

func newSimple(t *testing.T, cfg Config, precancel bool) *srun {
	r := &srun{cfg: cfg, ver: cfg.Ver, ch: map[int]chan int{}, closed: map[int]bool{}, next: map[int]int{}, gates: map[int]chan struct{}{}}
	inputs := map[uint]<-chan int{}
	for _, p := range cfg.Prios {
		c := cfg.InitChan[key(p)]
		r.ch[c] = make(chan int, cfg.InCap[fmt.Sprint(c)])
		inputs[p] = r.ch[c]
	}
	r.ctx, r.cancel = context.WithCancel(context.Background())
	count := func(name string) {
		if name == "RoundEnd" {
			r.rounds.Add(1)
		}
	}
	v1.VerifHook = func(ev v1.VerifEvent) { count(ev.Ev) }
	priority.VerifHook = func(ev priority.VerifEvent) { count(ev.Ev) }
	defer func() { v1.VerifHook, priority.VerifHook = nil, nil }()
	if precancel && cfg.Ver == 1 { // the context handed to the constructor is cancelled already: termination from point zero
		r.cancelReq = true
		r.emit(obs{E: "Cancel"})
		r.cancel()
	}
	if cfg.Ver == 1 {
		s, err := v1.NewSimple(v1.SimpleOpts[int]{Ctx: r.ctx, Divider: dividerV1(cfg.Div), Handle: r.handle, HandlersQuantity: cfg.H, Inputs: inputs})
		if err != nil {
			t.Fatalf("NewSimple: %v", err)
		}
		r.errCh, r.stopFn, r.graceFn = s.Err(), s.Stop, s.GracefulStop
	} else {
		s, err := simple.New(simple.Opts[int]{Divider: dividerByName(cfg.Div), Handle: func(item int) { r.handle(context.Background(), item) },
			HandlersQuantity: cfg.H, Inputs: inputs})
		if err != nil {
			t.Fatalf("simple.New: %v", err)
		}
		r.errCh = s.Err()
	}
	for p := range inputs { // the options map is the caller's again once the constructor has returned
		delete(inputs, p)
	}
	return r
}

func (r *srun) observe() {
	heartbeat.Add(1)
	synctest.Wait()
	if r.stopRet.Load() && !r.stopRetLogged {
		r.stopRetLogged = true
		r.mu.Lock()
		n := len(r.running)
		r.mu.Unlock()
		if n > 0 {
			r.emit(obs{E: "HandleAfterStop", K: n, Note: "Handle calls still running when Stop() returned"})
		}
		r.emit(obs{E: "StopRet"})
		if n := moduleGoroutines(); n > 0 {
			r.emit(obs{E: "Leak", K: n, Note: "goroutines of the library still alive when Stop() had returned"})
		}
	}
	if r.stop2Ret.Load() && !r.stop2RetLogged {
		r.stop2RetLogged = true
		r.mu.Lock()
		n := len(r.running)
		r.mu.Unlock()
		if n > 0 {
			r.emit(obs{E: "HandleAfterStop", K: n, Note: "Handle calls still running when a second, overlapping Stop() returned"})
		}
		r.emit(obs{E: "Stop2Ret"})
		if n := moduleGoroutines(); n > 0 {
			r.emit(obs{E: "Leak", K: n, Note: "goroutines of the library still alive when a second, overlapping Stop() had returned"})
		}
	}
	if r.graceRet.Load() && !r.graceRetLogged {
		r.graceRetLogged = true
		r.emit(obs{E: "GraceRet"})
		// C19: GracefulStop() has returned and every goroutine of the bubble is durably blocked: a goroutine of the
		// discipline that is still there (e.g. a handler inside Handle) is a leftover
		if n := moduleGoroutines(); n > 0 {
			r.emit(obs{E: "Leak", K: n, Note: "goroutines of the library still alive when GracefulStop() had returned"})
		}
	}
	if r.grace2Ret.Load() && !r.grace2RetLogged {
		r.grace2RetLogged = true
		r.emit(obs{E: "GraceRet"}) // judged like the return of the first call
		if n := moduleGoroutines(); n > 0 {
			r.emit(obs{E: "Leak", K: n, Note: "goroutines of the library still alive when a second, overlapping GracefulStop() had returned"})
		}
	}
	for !r.ecLogged {
		select {
		case err, ok := <-r.errCh:
			if !ok {
				r.ecLogged = true
				if r.ver == 2 {
					r.emit(obs{E: "OC"}) // v2 simple: Err() closing is the termination signal (Output is hidden)
				}
				r.emit(obs{E: "EC"})
				break
			}
			note := errNote(err)
			r.emit(obs{E: "EV", Note: note})
			continue
		default:
		}
		break
	}
}

func (r *srun) envAction(rnd *rand.Rand) bool {
	var acts []func()
	for c, ch := range r.ch {
		c, ch := c, ch
		if r.closed[c] {
			continue
		}
		if r.next[c] < r.cfg.Items[fmt.Sprint(c)] {
			if cap(ch) > 0 && len(ch) < cap(ch) {
				acts = append(acts, func() {
					r.next[c]++
					r.emit(obs{E: "W", C: uint(c), K: r.next[c]})
					ch <- c*1000 + r.next[c]
				})
			}
		} else {
			acts = append(acts, func() { r.closed[c] = true; r.emit(obs{E: "C", C: uint(c)}); close(ch) })
		}
	}
	r.mu.Lock()
	nrun := len(r.running)
	r.mu.Unlock()
	// once Stop() was called or the context cancelled the user's work does not "happen to finish" any more: a Handle that is
	// running then ends through its context or not at all (C16: no help from the environment)
	if nrun > 0 && !(r.ver == 1 && (r.stopReq || r.cancelReq)) {
		f := func() {
			r.mu.Lock()
			if len(r.running) > 0 {
				it := r.running[rnd.Intn(len(r.running))]
				if g, ok := r.gates[it]; ok {
					close(g)
					delete(r.gates, it)
				}
			}
			r.mu.Unlock()
		}
		acts = append(acts, f, f)
	}
	if len(acts) == 0 {
		return false
	}
	acts[rnd.Intn(len(acts))]()
	return true
}

func (r *srun) finishAllHandles() {
	r.mu.Lock()
	for it, g := range r.gates {
		close(g)
		delete(r.gates, it)
	}
	r.mu.Unlock()
}

func (r *srun) waitFor(rounds int, cond func() bool) bool {
	for i := 0; i < rounds/4+2; i++ {
		r.observe()
		if cond() {
			return true
		}
		idleWait(&r.rounds)
	}
	return cond()
}

func moduleGoroutines() int {
	buf := make([]byte, 1<<20)
	n := runtime.Stack(buf, true)
	cnt := 0
	for _, g := range strings.Split(string(buf[:n]), "\n\n") {
		if strings.Contains(g, "github.com/akramarenkov/cqos") && !strings.Contains(g, "moduleGoroutines") {
			cnt++
		}
	}
	return cnt
}

func (r *srun) control(what string) {
	switch what {
	case "stop":
		if r.stopFn == nil || r.stop2Req {
			return
		}
		if r.stopReq { // a second call overlapping the first: it owes the same guarantees when it returns
			r.stop2Req = true
			r.emit(obs{E: "Stop2"})
			go func() { r.stopFn(); r.stop2Ret.Store(true) }()
			return
		}
		r.stopReq = true
		r.emit(obs{E: "Stop"})
		go func() { r.stopFn(); r.stopRet.Store(true) }()
	case "cancel":
		if r.cancelReq || r.ver != 1 {
			return
		}
		r.cancelReq = true
		r.emit(obs{E: "Cancel"})
		r.cancel()
	case "grace":
		if r.graceFn == nil || r.grace2Req {
			return
		}
		if r.graceReq { // a second call overlapping the first: when it returns it owes what the first one owes
			r.grace2Req = true
			r.emit(obs{E: "Grace2"})
			go func() { r.graceFn(); r.grace2Ret.Store(true) }()
			return
		}
		r.graceReq = true
		r.emit(obs{E: "Grace"})
		go func() { r.graceFn(); r.graceRet.Store(true) }()
	}
}

func (r *srun) finish() {
	r.observe()
	terminated := func() bool { return r.ecLogged }
	switch {
	case r.stopReq || r.cancelReq:
		// no help from the environment: running Handle calls are only ended by their context
		if r.stopReq && !r.waitFor(300, func() bool { return r.stopRet.Load() && (!r.stop2Req || r.stop2Ret.Load()) }) {
			r.emit(obs{E: "StopHang", Note: "Simple.Stop() has not returned within the virtual deadline"})
		}
		if !r.waitFor(300, terminated) {
			r.emit(obs{E: "CancelHang", Note: "simplified discipline has not terminated within the virtual deadline after stop/cancel"})
		}
	default:
		for c, ch := range r.ch {
			if !r.closed[c] {
				r.closed[c] = true
				r.emit(obs{E: "C", C: uint(c)})
				close(ch)
			}
		}
		if r.ver == 1 && !r.graceReq {
			r.control("grace")
		}
		ok := r.waitFor(3000, func() bool {
			r.finishAllHandles()
			if r.ver == 1 {
				return r.graceRet.Load()
			}
			return terminated()
		})
		if !ok {
			if r.ver == 1 {
				r.emit(obs{E: "GraceHang", Note: "Simple.GracefulStop() has not returned although inputs are closed and every Handle returned"})
			} else {
				r.emit(obs{E: "Deadline", Note: "Err() not closed although inputs are closed and every Handle returned"})
			}
		}
	}
	// clean the bubble whatever happened, then look for leftovers
	r.emit(obs{E: "Free"}) // end of the verdict phase (validated by Trace_SimpleV1); what follows is harness clean-up
	r.emit(obs{E: "Final"}) // monitor: a discipline that ended normally owes everything that was written (also what was written after a premature end)
	r.cancel()
	r.finishAllHandles()
	if r.ver == 1 && !r.stopReq && !terminated() {
		r.stopReq = true
		go func() { r.stopFn(); r.stopRet.Store(true) }()
	}
	r.waitFor(400, func() bool { r.finishAllHandles(); return terminated() })
	if terminated() {
		synctest.Wait()
		idleWait(&r.rounds)
		if n := moduleGoroutines(); n > 0 {
			r.emit(obs{E: "Leak", K: n, Note: "goroutines with frames of the library remain after termination"})
		}
	}
}

func resetSimple(cfg Config, n int) map[string]any {
	chans, chprio := []int{}, [][2]int{}
	for _, p := range cfg.Prios {
		c := cfg.InitChan[key(p)]
		chans = append(chans, c)
		chprio = append(chprio, [2]int{c, int(p)})
	}
	return map[string]any{"e": "Reset", "path": n, "H": cfg.H, "prios": cfg.Prios, "chans": chans, "chprio": chprio, "live": chans,
		"share": shareOf(cfg), "sat": false, "fault": false, "v1": cfg.Ver == 1, "unordered": true, "cont": "simple", "p": 0, "k": 0, "c": 0, "cfg": cfg.Name}
}

// TestRecordSimple writes simple_events.ndjson
func TestRecordSimple(t *testing.T) {
	cfg := loadConfig(t)
	defer startWatchdog(os.Getenv("OUT_DIR"))()
	events := openOut(t, "simple_events.ndjson")
	defer events.close()
	n := envInt("SIMPLE_RUNS", 150)
	base := int64(envInt("VERIF_SEED", 1))*7927 + int64(len(cfg.Name))
	only := envInt("ONLY_RUN", 0)
	for i := 1; i <= n; i++ {
		if only != 0 && i != only {
			continue
		}
		seed := base*100003 + int64(i)
		steps := 15 + (i*31)%120
		m, _ := json.Marshal(map[string]any{"cfg": cfg.Name, "run": i, "seed": seed, "steps": steps, "simple": true})
		marker.Store(string(m))
		synctest.Test(t, func(t *testing.T) {
			rnd := rand.New(rand.NewSource(seed))
			r := newSimple(t, cfg, cfg.Cancel && i%9 == 4)
			var terms []string
			if cfg.Ver == 1 {
				if cfg.Stop {
					terms = append(terms, "stop")
				}
				if cfg.Cancel {
					terms = append(terms, "cancel")
				}
				if cfg.Graceful {
					terms = append(terms, "grace")
				}
			}
			type planned struct {
				at   int
				what string
			}
			var plan []planned
			if len(terms) > 0 && rnd.Intn(5) != 0 {
				plan = append(plan, planned{rnd.Intn(steps), terms[rnd.Intn(len(terms))]})
				if rnd.Intn(3) == 0 {
					plan = append(plan, planned{rnd.Intn(steps), terms[rnd.Intn(len(terms))]})
				}
				if plan[0].what != "cancel" && rnd.Intn(2) == 0 { // a second Stop() / GracefulStop() right behind the first, both pending together
					plan = append(plan, planned{plan[0].at, plan[0].what})
				}
				if cfg.Graceful && len(terms) > 1 && rnd.Intn(3) == 0 {
					// a rough stop / cancellation while a graceful stop is pending (inputs still open)
					at := rnd.Intn(steps/3 + 1)
					plan = []planned{{at, "grace"}, {at + 1 + rnd.Intn(steps-at), terms[rnd.Intn(len(terms)-1)]}}
				}
			}
			for s := 0; s < steps; s++ {
				for j := range plan {
					if plan[j].at == s {
						r.control(plan[j].what)
					}
				}
				if !r.envAction(rnd) {
					idleWait(&r.rounds)
				}
				r.observe()
			}
			r.finish()
			rec := resetSimple(cfg, i)
			rec["seed"], rec["steps"] = seed, steps
			events.put(rec)
			r.mu.Lock()
			for _, o := range r.log {
				events.put(o)
			}
			r.mu.Unlock()
			events.w.Flush()
		})
	}
	t.Logf("RECORDED simple runs=%d records=%d", n, events.n)
}
