package prioh

import (
	"fmt"
	"math/rand"
	"os"
	"runtime"
	"sort"
	"sync"
	"sync/atomic"
	"testing"
	"time"

	"github.com/akramarenkov/cqos/v2/priority"
)

// Free-running (B3) stress of the real v2 discipline: real goroutines, real clock, -race.
// Ordering facts are only ever taken from program order and channel happens-before:
//   W is logged BEFORE the write to the input, C before close(), L before Release(),
//   R after the receive (by the single dispatcher goroutine), OC/EC after the close was observed.

type freeLog struct {
	mu  sync.Mutex
	evs []obs
}

func (l *freeLog) add(o obs) {
	l.mu.Lock()
	l.evs = append(l.evs, o)
	l.mu.Unlock()
}

type contractCall struct {
	Prios  []uint `json:"prios"`
	H      uint   `json:"H"`
	Ps     []uint `json:"ps"`
	D      uint   `json:"d"`
	NonNil bool   `json:"nonnil"`
	V1     bool   `json:"v1"`
}

// distinct divider calls seen by the wrapping dividers of the gated runs (v2 replay, v1 recorder), flushed by the tests
var stuckRuns atomic.Int32 // a stuck discipline leaves goroutines behind: the test stops after recording that run

var (
	contractMu   sync.Mutex
	contractSeen = map[string]contractCall{}
)

func noteContract(prios []uint, h uint, ps []uint, d uint, nonNil bool, isV1 bool) {
	cc := contractCall{Prios: prios, H: h, Ps: append([]uint{}, ps...), D: d, NonNil: nonNil, V1: isV1}
	k := fmt.Sprint(cc)
	contractMu.Lock()
	contractSeen[k] = cc
	contractMu.Unlock()
}

func flushContract(t *testing.T, name string) {
	out := openOut(t, name)
	defer out.close()
	contractMu.Lock()
	for _, c := range contractSeen {
		out.put(c)
	}
	contractMu.Unlock()
}

func randomConfig(rnd *rand.Rand) Config {
	pool := []uint{1, 2, 3, 4, 5, 7, 10, 20, 70}
	n := 1 + rnd.Intn(5)
	perm := rnd.Perm(len(pool))[:n]
	ps := make([]uint, n)
	for i, j := range perm {
		ps[i] = pool[j]
	}
	sort.Slice(ps, func(i, j int) bool { return ps[i] > ps[j] })
	c := Config{Prios: ps, Div: []string{"fair", "rate", "rev", "fairlow"}[rnd.Intn(4)], InCap: map[string]int{}, Items: map[string]int{}}
	for _, p := range ps {
		c.InCap[key(p)] = []int{0, 1, 2, 5, 16}[rnd.Intn(5)]
		c.Items[key(p)] = []int{0, 1, 3, 20, 120}[rnd.Intn(5)]
	}
	// the smallest H the constructor accepts at or above a random start
	filled := func(h uint) bool {
		dist := map[uint]uint{}
		dividerByName(c.Div)(append([]uint(nil), ps...), h, dist)
		for _, p := range ps {
			if dist[p] == 0 {
				return false
			}
		}
		return true
	}
	c.H = 1 + uint([]int{0, 0, 0, 1, 3, 10, 40}[rnd.Intn(7)])
	for !filled(c.H) {
		c.H++
	}
	return c
}

func freeRunV2(t *testing.T, cfg Config, rnd *rand.Rand, calls map[string]contractCall, cmu *sync.Mutex) []obs {
	lg := &freeLog{}
	ins := map[uint]chan int{}
	inputs := map[uint]<-chan int{}
	for _, p := range cfg.Prios {
		ins[p] = make(chan int, cfg.incap(p))
		inputs[p] = ins[p]
	}
	base := dividerByName(cfg.Div)
	div := func(ps []uint, d uint, dist map[uint]uint) {
		cc := contractCall{Prios: cfg.Prios, H: cfg.H, Ps: append([]uint{}, ps...), D: d, NonNil: dist != nil}
		k := fmt.Sprint(cc)
		cmu.Lock()
		calls[k] = cc
		cmu.Unlock()
		base(ps, d, dist)
	}
	d, err := priority.New(priority.Opts[int]{Divider: div, HandlersQuantity: cfg.H, Inputs: inputs})
	if err != nil {
		t.Fatalf("New(%+v): %v", cfg, err)
	}
	var wg sync.WaitGroup
	ownerDone := make(chan struct{})
	defer close(ownerDone)
	ownMap(inputs, ownerDone)
	for _, p := range cfg.Prios {
		wg.Add(1)
		go func(p uint, n int, slow bool) {
			defer wg.Done()
			for k := 1; k <= n; k++ {
				lg.add(obs{E: "W", C: p, K: k})
				ins[p] <- int(p)*1000000 + k
				if slow && k%7 == 0 {
					time.Sleep(time.Microsecond)
				}
			}
			lg.add(obs{E: "C", C: p})
			close(ins[p])
		}(p, cfg.items(p), rnd.Intn(3) == 0)
	}
	// single dispatcher receives (so that the log order of R is the delivery order), workers hold and release
	work := make(chan uint, 4*cfg.H+8)
	nWorkers := int(2*cfg.H) + 1
	holds := make([]int, nWorkers)
	for i := range holds {
		holds[i] = rnd.Intn(4)
	}
	for i := 0; i < nWorkers; i++ {
		wg.Add(1)
		go func(hold int) {
			defer wg.Done()
			for p := range work {
				switch hold {
				case 1:
					runtime.Gosched()
				case 2:
					time.Sleep(time.Microsecond)
				case 3:
					time.Sleep(20 * time.Microsecond)
				}
				lg.add(obs{E: "L", P: p})
				d.Release(p)
			}
		}(holds[i])
	}
	stuck := false
recv:
	for {
		select {
		case x, ok := <-d.Output():
			if !ok {
				break recv
			}
			lg.add(obs{E: "R", P: x.Priority, C: uint(x.Item / 1000000), K: x.Item % 1000000})
			work <- x.Priority
		case <-time.After(20 * time.Second): // real-clock watchdog: nothing delivered and not closed for 20 s
			stuck = true
			break recv
		}
	}
	if stuck {
		lg.add(obs{E: "Deadline", Note: "free-running: nothing delivered and Output() not closed for 20 s of wall time"})
		stuckRuns.Add(1)
		return lg.evs
	}
	lg.add(obs{E: "OC"})
	close(work)
	for err := range d.Err() {
		note := errNote(err)
		lg.add(obs{E: "EV", Note: note})
	}
	lg.add(obs{E: "EC"})
	wg.Wait()
	if n := waitNoModuleGoroutines(); n > 0 {
		lg.add(obs{E: "Leak", K: n, Note: "goroutines of the library remain 2s after termination"})
	}
	return lg.evs
}

// ownMap: the options map belongs to the caller again once New has returned. Its owner keeps using it (emptying, refilling,
// reading) from a goroutine that never synchronises with the discipline: any access by the library is a race on user data (C20).
//
// MAP_OWNER=busy (C20 only): a library that touches the map concurrently can make the runtime abort the whole process ("concurrent
// map read and map write"), which is fine where the race report is the verdict. Elsewhere the owner just empties the map once, before
// anything else runs: a library that still reads it loses its inputs, which the functional checks see.
func ownMap(inputs map[uint]<-chan int, done <-chan struct{}) {
	keys := make([]uint, 0, len(inputs))
	for p := range inputs {
		keys = append(keys, p)
	}
	if os.Getenv("MAP_OWNER") != "busy" {
		for _, p := range keys {
			delete(inputs, p)
		}
		return
	}
	go func() {
		other := make(chan int)
		for {
			for _, p := range keys {
				delete(inputs, p)
			}
			n := len(inputs)
			for _, p := range keys {
				inputs[p] = other
			}
			for range inputs {
				n++
			}
			_ = n
			select {
			case <-done:
				return
			case <-time.After(20 * time.Microsecond):
			}
		}
	}()
}

// waitNoModuleGoroutines: free-running mode has no quiescence oracle, so the dump is retried with back-off for up to 2 s.
func waitNoModuleGoroutines() int {
	n := moduleGoroutines()
	for d := 50 * time.Microsecond; n > 0 && d < 2*time.Second; d *= 2 {
		time.Sleep(d)
		n = moduleGoroutines()
	}
	return n
}

// TestFreeV2 writes free_events.ndjson (for Mon_Prio) and contract_calls.ndjson (distinct divider calls, for PureContract).
func TestFreeV2(t *testing.T) {
	events := openOut(t, "free_events.ndjson")
	defer events.close()
	contract := openOut(t, "contract_calls.ndjson")
	defer contract.close()
	rnd := newRand(20)
	calls := map[string]contractCall{}
	var cmu sync.Mutex
	n := envInt("FREE_RUNS", 40)
	deadline := time.Now().Add(time.Duration(envInt("FREE_SECONDS", 20)) * time.Second)
	runs := 0
	for i := 0; i < n && time.Now().Before(deadline); i++ {
		cfg := randomConfig(rnd)
		evs := freeRunV2(t, cfg, rnd, calls, &cmu)
		events.put(resetV2(cfg, i+1, "free", false))
		for _, o := range evs {
			events.put(o)
		}
		runs++
		if stuckRuns.Load() > 0 {
			break
		}
	}
	for _, c := range calls {
		contract.put(c)
	}
	t.Logf("FREE runs=%d events=%d distinct_divider_calls=%d", runs, events.n, len(calls))
}

// TestFreeV2Sat (C05, real clock and real goroutines): every input is a small buffer with hundreds of single-shot writers parked on it
// BEFORE New (each receive refills the buffer from the next parked writer in the same critical section, so data is waiting
// continuously), a single dispatcher receives, workers release after random holds.  Items are anonymous: the dispatcher numbers them
// as they arrive (W is logged right before R).  The saturated phase ends (C records) while every input still has parked writers.
// Writes freesat_events.ndjson for Mon_Prio (sat = true: per-priority received - release-issued <= share at every R).
func freeRunV2Sat(t *testing.T, cfg Config, rnd *rand.Rand) []obs {
	const parked = 400
	lg := &freeLog{}
	ins := map[uint]chan int{}
	inputs := map[uint]<-chan int{}
	quit := make(chan struct{})
	var writers sync.WaitGroup
	for _, p := range cfg.Prios {
		ch := make(chan int, cfg.incap(p))
		ins[p] = ch
		inputs[p] = ch
		for i := 0; i < parked+cfg.incap(p); i++ {
			writers.Add(1)
			go func() {
				defer writers.Done()
				select {
				case ch <- 0:
				case <-quit:
				}
			}()
		}
	}
	time.Sleep(30 * time.Millisecond) // let every writer reach its send
	d, err := priority.New(priority.Opts[int]{Divider: dividerByName(cfg.Div), HandlersQuantity: cfg.H, Inputs: inputs})
	if err != nil {
		t.Fatalf("New(%+v): %v", cfg, err)
	}
	var wg sync.WaitGroup
	work := make(chan uint, 4*cfg.H+8)
	for i := 0; i < int(2*cfg.H)+1; i++ {
		wg.Add(1)
		go func(hold int) {
			defer wg.Done()
			for p := range work {
				switch hold {
				case 1:
					runtime.Gosched()
				case 2:
					time.Sleep(time.Microsecond)
				case 3:
					time.Sleep(30 * time.Microsecond)
				}
				lg.add(obs{E: "L", P: p})
				d.Release(p)
			}
		}(rnd.Intn(4))
	}
	count := map[uint]int{}
	saturated := true
	stuck := false
recv:
	for {
		select {
		case x, ok := <-d.Output():
			if !ok {
				break recv
			}
			count[x.Priority]++
			lg.add(obs{E: "W", C: x.Priority, K: count[x.Priority]})
			lg.add(obs{E: "R", P: x.Priority, C: x.Priority, K: count[x.Priority]})
			work <- x.Priority
			if saturated && count[x.Priority] >= parked/2 { // end of the saturated phase: every input still has parked writers
				saturated = false
				for _, p := range cfg.Prios {
					lg.add(obs{E: "C", C: p})
				}
				close(quit)
				writers.Wait()
				for _, p := range cfg.Prios {
					close(ins[p])
				}
			}
		case <-time.After(20 * time.Second):
			stuck = true
			break recv
		}
	}
	if stuck {
		lg.add(obs{E: "Deadline", Note: "free-running saturated: nothing delivered and Output() not closed for 20 s of wall time"})
		stuckRuns.Add(1)
		if saturated {
			close(quit)
		}
		return lg.evs
	}
	lg.add(obs{E: "OC"})
	close(work)
	for err := range d.Err() {
		lg.add(obs{E: "EV", Note: errNote(err)})
	}
	lg.add(obs{E: "EC"})
	wg.Wait()
	return lg.evs
}

func TestFreeV2Sat(t *testing.T) {
	events := openOut(t, "freesat_events.ndjson")
	defer events.close()
	rnd := newRand(23)
	shapes := []struct {
		ps  []uint
		h   uint
		div string
		cap int
	}{{[]uint{3, 2, 1}, 6, "rate", 1}, {[]uint{4, 3, 2, 1}, 15, "rate", 2}, {[]uint{3, 2, 1}, 4, "fair", 1}, {[]uint{2, 1}, 3, "rate", 1},
		{[]uint{5, 3, 1}, 9, "rate", 3}, {[]uint{3, 2, 1}, 12, "rate", 2}}
	n := envInt("FREESAT_RUNS", 12)
	runs := 0
	for i := 0; i < n && stuckRuns.Load() == 0; i++ {
		s := shapes[i%len(shapes)]
		cfg := Config{Prios: s.ps, H: s.h, Div: s.div, InCap: map[string]int{}, Items: map[string]int{}, Saturated: true}
		for _, p := range s.ps {
			cfg.InCap[key(p)] = s.cap
		}
		evs := freeRunV2Sat(t, cfg, rnd)
		events.put(resetV2(cfg, i+1, "free-sat", false))
		for _, o := range evs {
			events.put(o)
		}
		runs++
	}
	t.Logf("FREESAT runs=%d events=%d", runs, events.n)
}
