package prioh

import (
	"context"
	"math/rand"
	"os"
	"runtime"
	"sync"
	"testing"
	"time"

	v1 "github.com/akramarenkov/cqos/priority"
	"github.com/akramarenkov/cqos/v2/priority/simple"
)

// Free-running stress of the v1 discipline and of both simplified disciplines: real goroutines, real clock, -race.
// Control calls (AddInput, RemoveInput, then GracefulStop or Stop or cancel) come from their own goroutine.

func freeRunV1(t *testing.T, rnd *rand.Rand, run int) (map[string]any, []obs) {
	cfg := randomConfig(rnd)
	cfg.Ver = 1
	lg := &freeLog{}
	n := len(cfg.Prios)
	extra := rnd.Intn(2) // one extra channel to be added later (new priority not in the initial set is not possible: share must exist)
	chans := make([]chan int, n+extra)
	chPrio := make([]uint, n+extra)
	items := make([]int, n+extra)
	for i := 0; i < n+extra; i++ {
		p := cfg.Prios[i%n]
		chans[i] = make(chan int, []int{0, 1, 4, 16}[rnd.Intn(4)])
		chPrio[i] = p
		items[i] = []int{0, 2, 15, 80}[rnd.Intn(4)]
	}
	inputs := map[uint]<-chan int{}
	for i := 0; i < n; i++ {
		inputs[cfg.Prios[i]] = chans[i]
	}
	out := make(chan v1.Prioritized[int], 1+rnd.Intn(4))
	fb := make(chan uint, 1+rnd.Intn(4))
	ctx, cancel := context.WithCancel(context.Background())
	defer cancel()
	d, err := v1.New(v1.Opts[int]{Ctx: ctx, Divider: dividerV1(cfg.Div), Feedback: fb, HandlersQuantity: cfg.H, Inputs: inputs, Output: out})
	if err != nil {
		t.Fatalf("v1.New: %v", err)
	}
	if rnd.Intn(2) == 0 {
		for p := range inputs { // the options map belongs to the caller again once New has returned: reuse it
			delete(inputs, p)
		}
	}
	ending := []string{"graceful", "graceful", "stop", "cancel"}[rnd.Intn(4)]
	quit := make(chan struct{}) // closed when the discipline has terminated: unblocks producers and workers
	var wg sync.WaitGroup
	wg.Add(1)
	go func() { // the owner of the options map keeps looking at it, never synchronising with the discipline (C20: user-visible data)
		defer wg.Done()
		if os.Getenv("MAP_OWNER") != "busy" {
			return
		}
		for {
			select {
			case <-quit:
				return
			default:
			}
			n := len(inputs)
			for range inputs {
				n--
			}
			_ = n
			time.Sleep(20 * time.Microsecond)
		}
	}()
	replaced := -1
	if extra == 1 {
		replaced = (n) % n // channel index n is registered under the priority of channel 0 => channel 0 becomes dead
	}
	for i := range chans {
		wg.Add(1)
		go func(i int) {
			defer wg.Done()
			for k := 1; k <= items[i]; k++ {
				lg.add(obs{E: "W", C: uint(i + 1), K: k})
				select {
				case chans[i] <- (i+1)*1000000 + k:
				case <-quit:
					return
				}
			}
			lg.add(obs{E: "C", C: uint(i + 1)})
			close(chans[i])
		}(i)
	}
	work := make(chan uint, 4*cfg.H+8)
	for i := 0; i < int(cfg.H)+2; i++ {
		wg.Add(1)
		go func(hold int) {
			defer wg.Done()
			for p := range work {
				if hold == 1 {
					runtime.Gosched()
				} else if hold == 2 {
					time.Sleep(5 * time.Microsecond)
				}
				lg.add(obs{E: "L", P: p})
				select {
				case fb <- p:
				case <-quit:
				}
			}
		}(rnd.Intn(3))
	}
	wg.Add(1)
	go func() { // dispatcher: the single reader of the output
		defer wg.Done()
		defer close(work)
		for {
			select {
			case x := <-out:
				lg.add(obs{E: "R", P: x.Priority, C: uint(x.Item / 1000000), K: x.Item % 1000000})
				work <- x.Priority
			case <-quit:
				return
			}
		}
	}()
	// control goroutine
	delay := time.Duration(rnd.Intn(300)) * time.Microsecond
	rmv := rnd.Intn(3) == 0 && n > 1
	done := make(chan struct{})
	go func() {
		defer close(done)
		time.Sleep(delay / 2)
		if extra == 1 {
			d.AddInput(chans[n], chPrio[n])
			lg.add(obs{E: "AddRet", C: uint(n + 1), P: chPrio[n]})
			lg.add(obs{E: "Dead", C: uint(replaced + 1)})
		}
		if rmv {
			d.RemoveInput(cfg.Prios[n-1])
			lg.add(obs{E: "RmvRet", C: uint(n), P: cfg.Prios[n-1]})
		}
		time.Sleep(delay / 2)
		switch ending {
		case "stop":
			lg.add(obs{E: "Stop"})
			d.Stop()
			lg.add(obs{E: "StopRet"})
		case "cancel":
			lg.add(obs{E: "Cancel"})
			cancel()
			d.Stop() // "use for wait completion at terminates via context"
			lg.add(obs{E: "StopRet"})
		default:
			lg.add(obs{E: "Grace"})
			d.GracefulStop()
			lg.add(obs{E: "GraceRet"})
		}
	}()
	select {
	case <-done:
	case <-time.After(20 * time.Second):
		lg.add(obs{E: map[string]string{"stop": "StopHang", "cancel": "CancelHang", "graceful": "GraceHang"}[ending], Note: "real-clock watchdog 20s"})
		cancel()
		go d.Stop()
		<-done
	}
	for err := range d.Err() {
		note := errNote(err)
		lg.add(obs{E: "EV", Note: note})
	}
	lg.add(obs{E: "EC"})
	close(quit)
	wg.Wait()
	if n := waitNoModuleGoroutines(); n > 0 {
		lg.add(obs{E: "Leak", K: n, Note: "goroutines of the library remain 2s after termination"})
	}
	chansIds, chprio, live := []int{}, [][2]int{}, []int{}
	for i := range chans {
		chansIds = append(chansIds, i+1)
		chprio = append(chprio, [2]int{i + 1, int(chPrio[i])})
		if i < n {
			live = append(live, i+1)
		}
	}
	share := [][2]int{}
	for _, p := range cfg.Prios {
		share = append(share, [2]int{int(p), 0})
	}
	reset := map[string]any{"e": "Reset", "path": run, "H": cfg.H, "prios": cfg.Prios, "chans": chansIds, "chprio": chprio, "live": live,
		"share": share, "sat": false, "fault": false, "v1": true, "unordered": false, "cont": "free-v1", "p": 0, "k": 0, "c": 0, "cfg": cfg, "ending": ending}
	return reset, lg.evs
}

func TestFreeV1(t *testing.T) {
	events := openOut(t, "freev1_events.ndjson")
	defer events.close()
	rnd := newRand(21)
	deadline := time.Now().Add(time.Duration(envInt("FREE_SECONDS", 20)) * time.Second)
	runs := 0
	for i := 0; i < envInt("FREE_RUNS", 40) && time.Now().Before(deadline); i++ {
		reset, evs := freeRunV1(t, rnd, i+1)
		events.put(reset)
		for _, o := range evs {
			events.put(o)
		}
		runs++
	}
	t.Logf("FREEV1 runs=%d events=%d", runs, events.n)
}

// ---- simplified disciplines, free-running

func freeRunSimple(t *testing.T, rnd *rand.Rand, run int, ver int) (map[string]any, []obs) {
	cfg := randomConfig(rnd)
	cfg.Ver = ver
	lg := &freeLog{}
	chans := map[uint]chan int{}
	inputs := map[uint]<-chan int{}
	chprio, ids := [][2]int{}, []int{}
	for i, p := range cfg.Prios {
		chans[p] = make(chan int, cfg.incap(p))
		inputs[p] = chans[p]
		chprio = append(chprio, [2]int{i + 1, int(p)})
		ids = append(ids, i+1)
	}
	idOf := map[uint]int{}
	for i, p := range cfg.Prios {
		idOf[p] = i + 1
	}
	var shared int // deliberately unsynchronised data owned by Handle calls of ONE item at a time is not used; counters are atomic in the log
	_ = shared
	handle := func(ctx context.Context, item int) {
		c := item / 1000000
		p := uint(chprio[c-1][1])
		lg.add(obs{E: "R", P: p, C: uint(c), K: item % 1000000})
		switch item % 3 {
		case 1:
			runtime.Gosched()
		case 2:
			select {
			case <-time.After(3 * time.Microsecond):
			case <-ctx.Done():
			}
		}
		lg.add(obs{E: "L", P: p})
	}
	ctx, cancel := context.WithCancel(context.Background())
	defer cancel()
	var errCh <-chan error
	var stop, graceful func()
	if ver == 1 {
		s, err := v1.NewSimple(v1.SimpleOpts[int]{Ctx: ctx, Divider: dividerV1(cfg.Div), Handle: handle, HandlersQuantity: cfg.H, Inputs: inputs})
		if err != nil {
			t.Fatalf("NewSimple: %v", err)
		}
		errCh, stop, graceful = s.Err(), s.Stop, s.GracefulStop
	} else {
		s, err := simple.New(simple.Opts[int]{Divider: dividerByName(cfg.Div), Handle: func(item int) { handle(context.Background(), item) }, HandlersQuantity: cfg.H, Inputs: inputs})
		if err != nil {
			t.Fatalf("simple.New: %v", err)
		}
		errCh = s.Err()
	}
	quit := make(chan struct{})
	ownMap(inputs, quit) // the caller's map is the caller's again
	var wg sync.WaitGroup
	for _, p := range cfg.Prios {
		wg.Add(1)
		go func(p uint, n int) {
			defer wg.Done()
			for k := 1; k <= n; k++ {
				lg.add(obs{E: "W", C: uint(idOf[p]), K: k})
				select {
				case chans[p] <- idOf[p]*1000000 + k:
				case <-quit:
					return
				}
			}
			lg.add(obs{E: "C", C: uint(idOf[p])})
			close(chans[p])
		}(p, cfg.items(p))
	}
	ending := "normal"
	ctlDone := make(chan struct{})
	if ver != 1 {
		close(ctlDone)
	}
	if ver == 1 {
		ending = []string{"graceful", "graceful", "stop", "cancel"}[rnd.Intn(4)]
		delay := time.Duration(rnd.Intn(200)) * time.Microsecond
		go func() {
			defer close(ctlDone)
			time.Sleep(delay)
			switch ending {
			case "stop":
				lg.add(obs{E: "Stop"})
				stop()
				lg.add(obs{E: "StopRet"})
			case "cancel":
				lg.add(obs{E: "Cancel"})
				cancel()
			default:
				lg.add(obs{E: "Grace"})
				graceful()
				lg.add(obs{E: "GraceRet"})
			}
		}()
	}
	timeout := time.After(20 * time.Second)
loop:
	for {
		select {
		case err, ok := <-errCh:
			if !ok {
				break loop
			}
			note := errNote(err)
			lg.add(obs{E: "EV", Note: note})
		case <-timeout:
			lg.add(obs{E: "Deadline", Note: "real-clock watchdog 20s: Err() not closed"})
			break loop
		}
	}
	if ver == 2 {
		lg.add(obs{E: "OC"})
	}
	lg.add(obs{E: "EC"})
	close(quit)
	wg.Wait()
	if ver == 1 {
		stop()
	}
	select {
	case <-ctlDone:
	case <-time.After(20 * time.Second):
		lg.add(obs{E: "StopHang", Note: "control call has not returned 20s after termination"})
	}
	if n := waitNoModuleGoroutines(); n > 0 {
		lg.add(obs{E: "Leak", K: n, Note: "goroutines of the library remain 2s after termination"})
	}
	lg.mu.Lock()
	defer lg.mu.Unlock()
	reset := map[string]any{"e": "Reset", "path": run, "H": cfg.H, "prios": cfg.Prios, "chans": ids, "chprio": chprio, "live": ids,
		"share": shareOf(cfg), "sat": false, "fault": false, "v1": ver == 1, "unordered": true, "cont": "free-simple", "p": 0, "k": 0, "c": 0, "cfg": cfg, "ending": ending}
	return reset, lg.evs
}

func TestFreeSimple(t *testing.T) {
	events := openOut(t, "freesimple_events.ndjson")
	defer events.close()
	rnd := newRand(22)
	deadline := time.Now().Add(time.Duration(envInt("FREE_SECONDS", 20)) * time.Second)
	runs := 0
	for i := 0; i < envInt("FREE_RUNS", 40) && time.Now().Before(deadline); i++ {
		reset, evs := freeRunSimple(t, rnd, i+1, 1+i%2)
		events.put(reset)
		for _, o := range evs {
			events.put(o)
		}
		runs++
	}
	t.Logf("FREESIMPLE runs=%d events=%d", runs, events.n)
}
