package limith

// Several limit disciplines fed from ONE input channel (fan-out).  Every one of them owes C04 on its own output (at most
// Quantity*(floor(t/Interval)+1) elements by time t after creation) and together they owe C12: every element written
// appears on exactly one output, each output is in increasing order (the input is written in increasing order), and every
// output closes after the input is closed and emptied.  Virtual time (synctest), consumers always receiving, so the instant
// an element is received is the instant it was emitted.  Records (OUT_DIR/limit_shared.ndjson): Reset{n,Q,I}, O{d,x,now},
// Cl{d,now}, End{x: written}; judged by Mon_LimitShared.tla.

import (
	"bufio"
	"encoding/json"
	"math/rand"
	"os"
	"path/filepath"
	"sync"
	"testing"
	"testing/synctest"
	"time"

	"github.com/akramarenkov/cqos/v2/limit"
)

type lsRec struct {
	Tr  int    `json:"tr"`
	Ev  string `json:"ev"`
	N   int    `json:"n"`
	Q   int    `json:"Q"`
	I   int    `json:"I"`
	D   int    `json:"d"`
	X   int    `json:"x"`
	Now int    `json:"now"`
}

func TestRecordSharedLimit(t *testing.T) {
	dir := os.Getenv("OUT_DIR")
	if dir == "" {
		dir = t.TempDir()
	}
	f, err := os.Create(filepath.Join(dir, "limit_shared.ndjson"))
	if err != nil {
		t.Fatal(err)
	}
	defer f.Close()
	w := bufio.NewWriter(f)
	defer w.Flush()
	seed, runs := int64(1), 16
	if v := os.Getenv("VERIF_SEED"); v != "" {
		var s int64
		for _, c := range v {
			s = s*10 + int64(c-'0')
		}
		seed = s
	}
	if v := os.Getenv("SHARED_RUNS"); v != "" {
		runs = 0
		for _, c := range v {
			runs = runs*10 + int(c-'0')
		}
	}
	rnd := rand.New(rand.NewSource(seed*7919 + 41))
	for run := 1; run <= runs; run++ {
		nd := 2 + rnd.Intn(7)
		q := 1 + rnd.Intn(5)
		iv := 2 + rnd.Intn(6)
		capIn := []int{0, 1, 8, 64}[rnd.Intn(4)]
		total := 10 + rnd.Intn(60)
		synctest.Test(t, func(t *testing.T) {
			unit := time.Millisecond
			start := time.Now()
			var mu sync.Mutex
			var recs []lsRec
			emit := func(r lsRec) {
				r.Tr = run
				r.Now = int(time.Since(start) / unit)
				mu.Lock()
				recs = append(recs, r)
				mu.Unlock()
			}
			emit(lsRec{Ev: "Reset", N: nd, Q: q, I: iv})
			in := make(chan int, capIn)
			var wg sync.WaitGroup
			for d := 1; d <= nd; d++ {
				dsc, err := limit.New(limit.Opts[int]{Input: in, Limit: limit.Rate{Interval: time.Duration(iv) * unit, Quantity: uint64(q)}})
				if err != nil {
					t.Fatalf("limit.New: %v", err)
				}
				wg.Add(1)
				go func(d int, out <-chan int) {
					defer wg.Done()
					for x := range out {
						emit(lsRec{Ev: "O", D: d, X: x})
					}
					emit(lsRec{Ev: "Cl", D: d})
				}(d, dsc.Output())
			}
			for k := 1; k <= total; k++ {
				in <- k
				if rnd.Intn(6) == 0 {
					time.Sleep(time.Duration(rnd.Intn(2*iv)) * unit)
				}
			}
			close(in)
			wg.Wait()
			emit(lsRec{Ev: "End", X: total})
			for _, r := range recs {
				b, _ := json.Marshal(r)
				w.Write(b)
				w.WriteByte('\n')
			}
		})
	}
	t.Logf("SHAREDLIMIT runs=%d", runs)
}
