"""pure-engine: C13 (rate conversion), C14 (dividers), C18 (handler-quantity helpers), constructor table of C15.
Binding B4: the REAL functions are called by harness/pure on exhaustive small domains and seeded large inputs,
every call is logged, and TLC (32-bit domain) / Apalache (64-bit) decide each logged call against the
specification's statement of the property.  Conformance with the spec operators is reported as drift."""
import json, os, re, shutil
from common import *


def parse_violations(out, var):
    """-continue output -> list of (invariant, index)"""
    res = []
    cur = None
    for line in out.splitlines():
        m = re.match(r"Error: Invariant (\S+) is violated", line)
        if m:
            cur = m.group(1)
            continue
        m = re.match(r"(?:/\\ )?%s = (\d+)" % var, line.strip())
        if m and cur:
            res.append((cur, int(m.group(1))))
            cur = None
    return res


def record(binary, tests, outdir, env, timeout=900):
    e = dict(env)
    e["OUT_DIR"] = outdir
    rc, out, wall = run_test(binary, tests, env=e, timeout=timeout)
    if rc != 0 and "RECORDED" not in out and "LARGE" not in out:
        raise Inconclusive("recorder failed\n" + out[-3000:])
    return rc, out


def tlc_calls(sc, module, var, v, verdict_prefixes, workers=8, timeout=1200):
    res = tlc(sc, module, cfg=module + ".cfg", workers=workers, timeout=timeout, extra=["-continue"])
    if not res.finished or res.crashed and not res.inv_violated:
        raise Inconclusive("TLC failed on %s\n%s" % (module, res.out[-3000:]))
    v.add_tlc(res, module)
    viol, drift = [], []
    for inv, idx in parse_violations(res.out, var):
        (viol if inv.startswith(verdict_prefixes) else drift).append((inv, idx))
    return res, viol, drift


def line_of(path, idx):
    with open(path) as f:
        for k, line in enumerate(f, 1):
            if k == idx:
                return json.loads(line)
    return None


# ------------------------------------------------------------------------------------------------ C14
def check_C14(tier):
    v = Verdict("C14", tier, "model_checking")
    with Scratch("c14") as sc:
        stage_specs(sc)
        # U1: theorems of the spec operators over the exhaustive small domain
        r = tlc_must_pass(tlc(sc, "MC_Dividers", cfg="MC_Dividers.cfg", workers=8, timeout=600), "MC_Dividers")
        v.add_tlc(r, "MC_Dividers: Fair/Rate theorems, 7-value universe, lists of 1..5, dividends 0..40")
        rv = tlc(sc, "MC_Dividers", cfg="MC_Dividers_vac.cfg", workers=8, timeout=600)
        if not rv.inv_violated:
            raise Inconclusive("vacuity guard: no exact tie in the domain")
        # B4: record the real functions
        binary = os.path.join(sc, "pure.test")
        build_test("pure", binary, race=False)
        env = dict(DIV_MAXN=4 if tier == "quick" else 5, DIV_MAXD=40 if tier == "quick" else 60,
                   DIV_LARGE_N=20000 if tier == "quick" else 400000)
        rc, out = record(binary, "TestRecordDividers|TestLargeDividers", sc, env)
        if "RECORDED div_calls=" not in out:   # a recorder that died half-way (e.g. a panicking divider) must not pass for a short recording
            raise Inconclusive("divider recorder did not finish\n" + out[-3000:])
        calls = os.path.join(sc, "div_calls.ndjson")
        res, viol, drift = tlc_calls(sc, "PureDiv", "i", v, ("C14",))
        n = res.distinct
        nontriv = set()
        samples = []
        with open(calls) as f:
            for line in f:
                c = json.loads(line)
                if c["d"] > 0 and len(c["ps"]) > 1:
                    nontriv.add((c["fn"], tuple(c["ps"]), c["d"], json.dumps(c["pre"]), c["prenil"]))
                    if len(samples) < 3 and c["d"] > 7 and len(c["ps"]) > 2 and c["pre"]:
                        samples.append(c)
        m = re.search(r"LARGE calls=(\d+) bad=(\d+)", out)
        large_calls, large_bad = (int(m.group(1)), int(m.group(2))) if m else (0, 0)
        if not m:
            raise Inconclusive("large-magnitude driver did not report\n" + out[-2000:])
        for inv, idx in viol[:5]:
            c = line_of(calls, idx)
            v.violation("%s fails for recorded call %s" % (inv, json.dumps(c)), dict(kind="divider-call", invariant=inv, call=c))
        if large_bad:
            for c in read_ndjson(os.path.join(sc, "div_large.ndjson"))[:5]:
                v.violation("C14 postcondition (big integers) fails: %s" % c["why"], dict(kind="divider-call-large", **c))
        v.cov.update(evaluations=n + large_calls, distinct_nontrivial=len(nontriv),
                     traces_validated_against_impl=n - len({i for _, i in viol + drift}),
                     rule="every recorded call of the 4 real dividers (v1 Fair/RateDivider, v2 Fair/Rate) on: all strictly "
                          "decreasing lists of 1..%s values from {1,2,3,5,8,13,40} x dividends 0..%s x {nil, empty, prefilled incl. "
                          "foreign keys} (decided by TLC, one state per call) + %d seeded large calls (big-integer oracle, "
                          "2*D*p < 2^53). non-trivial = dividend > 0 and at least 2 priorities; distinct by (fn, list, dividend, prefill)"
                          % (env["DIV_MAXN"], env["DIV_MAXD"], large_calls),
                     exhaustive=True, drift=len(drift), drift_samples=[(inv, line_of(calls, idx)) for inv, idx in drift[:3]],
                     large_calls=large_calls,
                     wrapped_sum_calls=int((re.search(r"wrapped_sum_calls=(\d+)", out) or [0, 0])[1]),
                     wrapped_sum_note="lists whose priorities sum beyond the machine word (the sum wraps, for some to 0; also the list [0]): conservation and "
                                      "'changes nothing else' only, big-integer oracle (seeded change C14-e)")
        for s in samples:
            v.sample(s)
        v.assumptions += ["TLC integers are 32 bit: calls with large magnitudes are decided by the same postcondition "
                          "re-stated with big integers in the harness (supplementary, not TLC)",
                          "Go float64 arithmetic as executed on this machine"]
    return v.finish()


# ------------------------------------------------------------------------------------------------ C18 (+ C15 constructor table)
def utils_env(tier):
    return dict(UTL_MAXN=3 if tier == "quick" else 4, UTL_MAXQ=16 if tier == "quick" else 30,
                UTL_RANDOM=10 if tier == "quick" else 60, UTL_RANDOM_MAXQ=40 if tier == "quick" else 280)


def run_utils(tier, v, sc, prefixes):
    stage_specs(sc)
    binary = os.path.join(sc, "pure.test")
    build_test("pure", binary, race=False)
    rc_u, out_u = record(binary, "TestRecordUtils$|TestRecordCtor$", sc, utils_env(tier))
    if "RECORDED utils_calls=" not in out_u or "constructor calls" not in out_u:   # every recorder of the binary must have finished
        raise Inconclusive("utils / constructor recorder did not finish\n" + out_u[-3000:])
    calls = os.path.join(sc, "utils_calls.ndjson")
    res, viol, drift = tlc_calls(sc, "PureUtils", "i", v, prefixes, timeout=3000)
    # constructors of every discipline against PureCtor.tla: conformance only (no listed property is about option validation)
    ctor = os.path.join(sc, "ctor_calls.ndjson")
    if os.path.exists(ctor) and os.path.getsize(ctor):
        try:
            cres, _, cdrift = tlc_calls(sc, "PureCtor", "i", v, ("C_never",), timeout=600)
            v.cov["constructor_conformance"] = dict(calls=cres.distinct, drift=len(cdrift), drift_samples=[(inv, line_of(ctor, idx)) for inv, idx in cdrift[:3]])
            if cdrift:
                v.notes.append("DRIFT (not a verdict): %d constructor calls differ from PureCtor.tla" % len(cdrift))
        except Inconclusive as e:
            v.notes.append("constructor conformance not evaluated: %s" % str(e)[:200])
    # other properties' invariants are not this check's business
    other = [x for x in drift]
    return calls, res, viol, other


def known_match(pid, rec):
    """KNOWN_FINDINGS.json entries of kind 'call' match a recorded call by listed fields"""
    for k in known_findings().get("known", []):
        if k["property"] != pid or k.get("kind") != "call":
            continue
        if all(rec.get(f) == val for f, val in k["match"].items()):
            return k
    return None


def check_C18(tier):
    v = Verdict("C18", tier, "model_checking")
    with Scratch("c18") as sc:
        calls, res, viol, other = run_utils(tier, v, sc, ("C18",))
        kinds, nontriv, samples = {}, set(), []
        with open(calls) as f:
            for line in f:
                c = json.loads(line)
                kinds[c["k"]] = kinds.get(c["k"], 0) + 1
                if len(c["ps"]) >= 2 and c.get("q", c.get("max", 0)) >= 1:
                    key = (c["k"], c["ver"], c["fn"], tuple(c["ps"]), c.get("q"), c.get("max"), c.get("which"), c.get("limit"))
                    nontriv.add(key)
                if len(samples) < 4 and c["k"] in ("pick", "suit", "new", "nf") and len(c["ps"]) == 3 and c.get("q", c.get("max")) == 7 and c["k"] not in [s["k"] for s in samples]:
                    samples.append(c)
        for inv, idx in viol[:5]:
            c = line_of(calls, idx)
            c.pop("rows", None) if len(json.dumps(c)) > 4000 else None
            v.violation("%s fails for recorded call %s" % (inv, json.dumps(c)[:1500]), dict(kind="utils-call", invariant=inv, call=c))
        v.cov.update(evaluations=res.distinct, distinct_nontrivial=len(nontriv),
                     traces_validated_against_impl=res.distinct - len({i for _, i in viol}),
                     rule="every recorded call of the real helpers (both versions, Fair and Rate): all sets of 1..%(UTL_MAXN)s values from "
                          "{1,2,3,5,8,13,21,34,70} x q in 0..%(UTL_MAXQ)s (exhaustive) + %(UTL_RANDOM)s seeded sets of 1..6 values <= 100 with q up to "
                          "20+%(UTL_RANDOM_MAXQ)s; TLC enumerates the sub-lists itself and evaluates the definition on the rows the real divider "
                          "returned. non-trivial = at least 2 priorities and q/max >= 1; distinct by (kind, version, divider, set, q/max, limit)" % utils_env(tier),
                     exhaustive=True, calls_by_kind=kinds)
        for s in samples:
            v.sample(s)
        v.assumptions += ["IsSuitableConfig's float percentage is not transcribed: checked through the relations the property states "
                          "(implies non-fatal, monotone in the limit, PickUp* = min/max of the real predicate)"]
    return v.finish()


# ------------------------------------------------------------------------------------------------ C13
def apalache_batch(sc, recs, name):
    """decide recorded 64-bit calls with Apalache (unbounded integers): one initial state per call"""
    mod = os.path.join(sc, name + ".tla")
    with open(mod, "w") as f:
        f.write("---- MODULE %s ----\nEXTENDS RateConv\nVARIABLE\n  \\* @type: <<Int,Int,Int,Bool,Int,Int>>;\n  c\n" % name)
        f.write("MaxU == 18446744073709551615\n\\* @type: Set(<<Int,Int,Int,Bool,Int,Int>>);\nCalls == {\n")
        f.write(",\n".join("<<%s,%s,%s,%s,%s,%s>>" % (r["I"], r["Q"], r["M"], "TRUE" if r["Err"] else "FALSE", r["RI"], r["RQ"]) for r in recs))
        f.write("}\nInit == c \\in Calls\nNext == UNCHANGED c\n")
        f.write("OK == IF c[4] THEN ErrAllowed(c[1],c[2],c[3],MaxU) /\\ c[5] = 0 /\\ c[6] = 0 ELSE Post(c[1],c[2],c[3],c[5],c[6])\n")
        f.write("Conf == IF IsErr(c[1],c[2],c[3],MaxU) THEN c[4] ELSE ~c[4] /\\ c[5] = ResI(c[1],c[2],c[3]) /\\ c[6] = ResQ(c[1],c[2],c[3])\n====\n")
    out_dir = os.path.join(sc, "apa-" + name)
    res = {}
    for inv in ("OK", "Conf"):
        rc, out, wall = run(["apalache-mc", "check", "--out-dir=" + out_dir, "--length=0", "--inv=" + inv, name + ".tla"], cwd=sc, timeout=900,
                            env=dict(JVM_ARGS="-Djava.io.tmpdir=" + sc, TMPDIR=sc))
        if "The outcome is: NoError" in out:
            res[inv] = None
        elif "The outcome is: Error" in out:
            # counterexample: find c in the violation file
            cex = None
            for root, _, files in os.walk(out_dir):
                for fn in files:
                    if fn == "violation1.tla" or (fn.startswith("violation") and fn.endswith(".tla")):
                        txt = open(os.path.join(root, fn)).read()
                        m = re.search(r"\bc\s*=\s*<<\s*(-?\d+),\s*(-?\d+),\s*(-?\d+),\s*(TRUE|FALSE),\s*(-?\d+),\s*(-?\d+)\s*>>", txt)
                        if m:
                            cex = m.groups()
            res[inv] = cex or ("?",)
        else:
            raise Inconclusive("apalache failed on %s/%s\n%s" % (name, inv, out[-2000:]))
        shutil.rmtree(out_dir, ignore_errors=True)
    return res


def check_C13(tier):
    v = Verdict("C13", tier, "model_checking")
    with Scratch("c13") as sc:
        stage_specs(sc)
        # U5: symbolic validity of the postcondition for the specification's function over all 64-bit inputs
        sym = {}
        for inv, expect_error in (("PostHolds", False), ("PinnedPostHolds", True), ("Vacuity", True)):
            out_dir = os.path.join(sc, "apa-sym")
            rc, out, wall = run(["apalache-mc", "check", "--out-dir=" + out_dir, "--length=0", "--inv=" + inv, "RateConvApa.tla"], cwd=sc, timeout=600,
                                env=dict(JVM_ARGS="-Djava.io.tmpdir=" + sc, TMPDIR=sc))
            shutil.rmtree(out_dir, ignore_errors=True)
            got_error = "The outcome is: Error" in out
            if not got_error and "The outcome is: NoError" not in out:
                raise Inconclusive("apalache failed on RateConvApa/%s\n%s" % (inv, out[-2000:]))
            if got_error != expect_error:
                raise Inconclusive("specification-level check %s: expected %s" % (inv, "a counter-example" if expect_error else "NoError"))
            sym[inv] = "counter-example (expected)" if got_error else "NoError"
        # B4: record real calls
        binary = os.path.join(sc, "pure.test")
        build_test("pure", binary, race=False)
        env = dict(RATE_N=28 if tier == "quick" else 44, RATE_BIG_N=110 if tier == "quick" else 900)
        rc_rec, out_rec = record(binary, "TestRecordRate", sc, env)
        if "RECORDED rate_big=" not in out_rec or rc_rec != 0:   # a recorder that died half-way must not pass for a short recording
            raise Inconclusive("rate recorder did not finish\n" + out_rec[-3000:])
        calls = os.path.join(sc, "rate_calls.ndjson")
        res, viol, drift = tlc_calls(sc, "PureRate", "n", v, ("C13",))
        for inv, idx in viol[:5]:
            c = line_of(calls, idx)
            v.violation("%s fails: Rate{%d,%d}.Recalculate(%d) = {%d,%d}, err=%r" % (inv, c["i"], c["q"], c["m"], c["ri"], c["rq"], c["err"]),
                        dict(kind="rate-call", invariant=inv, call=c))
        big = read_ndjson(os.path.join(sc, "rate_big.ndjson"))
        valid_big = [r for r in big if r["Err"] not in ("invalid", "min-negative")]
        bad_big = 0
        chunk = 150
        for k in range(0, len(valid_big), chunk):
            part = valid_big[k:k + chunk]
            r = apalache_batch(sc, part, "RateBatch%d" % (k // chunk))
            if r["OK"] is not None:
                bad_big += 1
                cex = r["OK"]
                rec = next((x for x in part if len(cex) >= 3 and cex[0] == str(x["I"]) and cex[1] == str(x["Q"]) and cex[2] == str(x["M"])), None)
                if rec is None:
                    raise Inconclusive("Apalache rejects a batch of recorded 64-bit calls but the offending call could not be identified: %r" % (cex,))
                v.violation("C13 postcondition fails for the recorded 64-bit call Rate{%s,%s}.%s(%s) = {%s,%s}, err=%r" % (
                    rec["I"], rec["Q"], rec.get("Via", "Recalculate"), rec["M"], rec["RI"], rec["RQ"], rec["Err"]), dict(kind="rate-call-64", call=rec))
            if r["Conf"] is not None:
                drift.append(("Conf64", r["Conf"]))
        nontriv = set()
        branch2 = 0
        with open(calls) as f:
            for line in f:
                c = json.loads(line)
                if c["i"] > 0 and c["q"] > 0 and c["m"] >= 0 and c["i"] // c["q"] <= c["m"]:
                    nontriv.add((c["i"], c["q"], c["m"]))
        for r in valid_big:
            if int(r["I"]) // int(r["Q"]) <= int(r["M"]):
                nontriv.add((r["I"], r["Q"], r["M"]))
        v.cov.update(evaluations=res.distinct + len(valid_big), distinct_nontrivial=len(nontriv),
                     traces_validated_against_impl=res.distinct + len(valid_big) - len({i for _, i in viol}) - bad_big,
                     rule="recorded calls of the real Rate.Recalculate/Flatten/Optimize: all (I,Q,m) in -1..%(RATE_N)s x 0..%(RATE_N)s x -1..%(RATE_N)s "
                          "decided by TLC against the property's postcondition (cross-multiplied) + %(RATE_BIG_N)s seeded boundary-directed 64-bit calls "
                          "decided by Apalache (unbounded integers); non-trivial = argument on the floor(I/Q) <= m branch (second branch, ties, overflow); "
                          "distinct by (I,Q,m)" % env,
                     exhaustive=True, symbolic=sym, drift=len(drift), big_calls=len(valid_big))
        v.sample(dict(call=line_of(calls, 5000)))
        v.sample(dict(call64=valid_big[0]))
        v.sample(dict(call64=valid_big[-1]))
        v.assumptions += ["Apalache/Z3 integer arithmetic; symbolic result is about the specification's Recalculate (RateConv.tla), tied to "
                          "the Go function by conformance of every recorded call"]
    return v.finish()
