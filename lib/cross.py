"""cross-cutting checks: C19 (all goroutines end) and C20 (no data races), evaluated over the runs of every engine."""
import json, os, re
from common import *
import prio


def free_all(sc, binary, tier, owner_busy=False):
    sub = os.path.join(sc, "freeall")
    os.makedirs(sub, exist_ok=True)
    env = dict(OUT_DIR=sub, FREE_RUNS=80 if tier == "quick" else 4000, FREE_SECONDS=12 if tier == "quick" else 120)
    if owner_busy:   # the owner of the options map keeps using it from its own goroutine (C20)
        env["MAP_OWNER"] = "busy"
    rc, out, wall = run_test(binary, "TestFreeV2$|TestFreeV1$|TestFreeSimple$", env=env, timeout=1200)
    counts = {}
    for name, pat in (("v2", r"FREE runs=(\d+)"), ("v1", r"FREEV1 runs=(\d+)"), ("simple", r"FREESIMPLE runs=(\d+)")):
        m = re.search(pat, out)
        if not m:
            if race_reports(out):        # the race detector spoke before the driver died: that is still a verdict
                counts[name] = 0
                continue
            raise Inconclusive("free-running driver %s died\n%s" % (name, out[-3000:]))
        counts[name] = int(m.group(1))
    files = [f for f in (os.path.join(sub, n) for n in ("free_events.ndjson", "freev1_events.ndjson", "freesimple_events.ndjson")) if os.path.exists(f)]
    return sub, files, counts, out


def free_join_limit(sc, tier):
    """free-running join / unite / v1 join / limit stress (harness/freeh), -race"""
    binary = os.path.join(sc, "freeh.test")
    build_test("freeh", binary, race=True, tags="")
    rc, out, wall = run_test(binary, "TestFree", env=dict(FREE_RUNS=80 if tier == "quick" else 3000), timeout=1500)
    runs = sum(int(x) for x in re.findall(r"FREE(?:JOIN|UNITE|JOINV1|JOINV1HELD|LIMIT) runs=(\d+)", out))
    if runs == 0:
        raise Inconclusive("freeh driver died\n" + out[-3000:])
    leaks = re.findall(r"LEAK ([^\n]*)(?:\n(?!\s*---).*){0,12}", out)
    content = [l.strip() for l in out.splitlines() if ("delivered" in l or "got " in l) and "free_test.go" in l]
    return dict(runs=runs, out=out, leaks=re.findall(r"LEAK [^\n]*", out), content_errors=content[:5])


def race_reports(out):
    reps = []
    for m in re.finditer(r"WARNING: DATA RACE\n(.*?)\n==================", out, re.S):
        reps.append(m.group(1))
    return reps


def other_engines(kind, v, sc, tier):
    """join / limit engines contribute their own runs when present"""
    outs = []
    for modname in ("join", "limit"):
        try:
            mod = __import__(modname)
        except Exception as e:  # engine not built
            continue
        fn = getattr(mod, "cross_" + kind, None)
        if fn:
            outs.append((modname, fn(v, sc, tier)))
    return outs


def check_C19(tier):
    v = Verdict("C19", tier, "model_checking")
    with Scratch("c19") as sc:
        binary = os.path.join(sc, "prioh.test")
        build_test("prioh", binary)
        files = []
        # spec level: in PrioV2/PrioV1 the scheduler is the only process and pc = "Closed" is its exit; the liveness
        # "terminated => exited" is the termination liveness already checked (C07_Live / C16_Live); re-run the smallest ones here
        live = prio.mk("p2live19", [2, 1], 3, "rate", 1, 1)
        sub = os.path.join(sc, "live")
        os.makedirs(sub)
        stage_specs(sub)
        cfgp, rows = prio.pm.div_table(binary, live, sub)
        name = prio.pm.write_mc(sub, live, rows, spec="LiveSpec", properties=["C07_Live"], invariants=["C07_Closed"])
        r = tlc(sub, name, cfg=name + ".cfg", workers=8, timeout=900)
        if not r.ok:
            raise Inconclusive("TLC failed on %s\n%s" % (name, r.out[-2000:]))
        v.add_tlc(r, name + " (scheduler process reaches its exit state)")
        prio.v1_model(v, sc, binary, prio.mk1("v1stop19", [2, 1], {2: 1, 1: 2}, 2, "rate", 2, 1, 1, stop=True, cancel=True), spec="StopSpec", properties=["C16_Live"])
        prio.simple_model(v, sc, "MC_SimpleV1")     # C19_AllExited: handlers, helper and inner discipline have ended when main is done
        # real code: every termination path of every priority-family discipline, with a goroutine dump after termination
        rnd = __import__("random").Random(seed())
        cfg = prio.mk("p2rate19", [2, 1], 3, "rate", 2, 2)
        subm, cfgp, paths, st = prio.model_and_paths(v, sc, binary, cfg, 400 if tier == "quick" else None, rnd)
        rp = prio.replay(binary, subm, cfgp, paths, "drain")
        files.append(os.path.join(subm, "replay_events.ndjson"))
        fcfg = prio.mk("p2fault19", [2, 1], 3, "rate", 2, 1, faults=1)
        subf, cfgpf, pathsf, stf = prio.model_and_paths(v, sc, binary, fcfg, 400 if tier == "quick" else None, rnd)
        prio.replay(binary, subf, cfgpf, pathsf, "drain")
        files.append(os.path.join(subf, "replay_events.ndjson"))
        for kind in ("stop", "grace", "fault", "dyn"):
            for c1 in prio.v1_configs(kind, tier)[:2]:
                rec = prio.record_v1(binary, sc, c1, 100 if tier == "quick" else 2000)
                files.append(rec["obs"])
        for c2 in prio.simple_configs(tier):
            rec = prio.record_simple(binary, sc, c2, 100 if tier == "quick" else 2000)
            files.append(rec["obs"])
        fsub, ffiles, counts, out = free_all(sc, binary, tier)
        files += ffiles
        viol, events = prio.run_monitor(sc, files, v)
        log("[C19] monitor: %s" % {k: len(x) for k, x in viol.items()})
        traces = prio.stats_of(events)
        for t0 in sorted(viol.get("C19", set()))[:5]:
            tr = prio.trace_at(events, t0)
            v.violation("C19: goroutines of the library remain after termination (%s, config %s, run %s): %s" % (
                tr[0].get("cont"), tr[0].get("cfg") if not isinstance(tr[0].get("cfg"), dict) else tr[0]["cfg"].get("name"), tr[0].get("path"), prio.summarize("C19", tr)),
                dict(kind="leak", header={k: tr[0].get(k) for k in ("cont", "cfg", "path", "seed", "steps")}, observed=tr[:300]))
        others = other_engines("leaks", v, sc, tier)
        fj = free_join_limit(sc, tier)
        for l in fj["leaks"][:3]:
            v.violation("C19: " + l[:300], dict(kind="leak-free-join-limit", seed=seed(), report=l))
        v.cov["join_unite_limit_free_runs"] = fj["runs"]
        term = [t for t in traces if prio.has(t, "EC", "StopRet", "GraceRet")]
        kinds = {}
        for t in term:
            k = (t["reset"].get("cont"), "stop" if prio.has(t, "Stop") else "cancel" if prio.has(t, "Cancel") else "fault" if t["reset"].get("fault") else "graceful" if prio.has(t, "Grace") else "normal")
            kinds[str(k)] = kinds.get(str(k), 0) + 1
        v.cov.update(evaluations=len(traces), distinct_nontrivial=len({t["sig"].hexdigest() for t in term}),
                     traces_validated_against_impl=len(traces) - len({t0 for s in viol.values() for t0 in s}),
                     rule="every recorded run of the priority-family engines (gated replays incl. divider faults, v1 stop/cancel/graceful/add-remove schedules, both "
                          "simplified disciplines, free-running v2/v1/simple runs) ends with a goroutine dump after the termination signal (synctest.Wait() in "
                          "bubbles; retried with back-off up to 2 s in free-running mode): the number of goroutines with a frame of the library must be 0 "
                          "(monitor event Leak). join/unite/limit contribute through their engines. non-trivial = run that reached a termination signal; distinct by events",
                     termination_paths=kinds, other_engines=[(n, o) for n, o in others], exhaustive=False)
        if traces:
            v.sample(dict(observed_trace=[(e["e"], e.get("p"), e.get("c"), e.get("k")) for e in prio.trace_at(events, 1)][-25:]))
        v.assumptions += ["goroutine dump (runtime.Stack) attributes goroutines to the library by frame name", "synctest quiescence"]
    return v.finish()


def check_C20(tier):
    v = Verdict("C20", tier, "exploration")
    with Scratch("c20") as sc:
        binary = os.path.join(sc, "prioh.test")
        build_test("prioh", binary, race=True)
        fsub, ffiles, counts, out = free_all(sc, binary, tier, owner_busy=True)
        reports = race_reports(out)
        total_runs = sum(counts.values())
        # model-generated schedules under the race detector as well
        rnd = __import__("random").Random(seed())
        cfg = prio.mk("p2rate20", [2, 1], 3, "rate", 2, 2)
        subm, cfgp, paths, st = prio.model_and_paths(v, sc, binary, cfg, 300 if tier == "quick" else 5000, rnd)
        rp = prio.replay(binary, subm, cfgp, paths, "stall")
        reports += race_reports(rp["out"])
        total_runs += rp["paths"]
        for c1 in (prio.v1_configs("dyn", tier)[0], prio.v1_configs("stop", tier)[0]):
            rec = prio.record_v1(binary, sc, c1, 100 if tier == "quick" else 1500)
            total_runs += 100 if tier == "quick" else 1500
            if rec["races"]:
                reports.append("race during gated v1 runs of %s" % c1["name"])
        fj = free_join_limit(sc, tier)
        reports += race_reports(fj["out"])
        total_runs += fj["runs"]
        counts["join_unite_limit"] = fj["runs"]
        others = other_engines("races", v, sc, tier)
        for name, o in others:
            reports += o.get("reports", [])
            total_runs += o.get("runs", 0)
        # freeh uses slices strictly by the documented ownership rules (the consumer owns copy-mode outputs, the producer owns
        # what it sent in copy mode): a race between two harness goroutines there is a race on user-visible data
        lib = [r for r in reports if "github.com/akramarenkov/cqos" in r or "race during" in r or "verifharness/freeh." in r]
        harness_only = [r for r in reports if r not in lib]
        for r in lib[:5]:
            v.violation("C20: the race detector reports a data race involving the library: %s" % r[:400].replace("\n", " | "),
                        dict(kind="race", seed=seed(), report=r[:6000]))
        if harness_only and not lib:
            raise Inconclusive("race detector fired inside the harness only (harness defect, not a verdict)\n" + harness_only[0][:3000])
        sizes = []
        for f in ffiles:
            sizes.append(sum(1 for _ in open(f)))
        v.cov.update(evaluations=total_runs, distinct_nontrivial=sum(counts.values()),
                     rule="all harness binaries are built with -race; counted here: free-running randomized runs with real goroutines and the real clock "
                          "(v2: producers + dispatcher + 2H+1 releasing workers; v1: the same plus AddInput/RemoveInput/GracefulStop/Stop/cancel from a control "
                          "goroutine; simplified disciplines with concurrent Handle calls), the gated replay of model paths and gated v1 schedules; join/unite/limit "
                          "through their engines (consumers keeping and modifying copy-mode slices). A report whose stacks involve the library is the violation. "
                          "non-trivial = free-running run with real parallelism (distinct seeds/configurations)",
                     free_runs=counts, free_events=sizes, race_reports=len(reports), other_engines=[n for n, _ in others])
        if ffiles and os.path.getsize(ffiles[0]):
            v.sample(dict(free_run_config=json.loads(open(ffiles[0]).readline()).get("cfg")))
        else:
            v.sample(dict(note="free-running drivers did not complete"))
        v.assumptions += ["Go race detector (happens-before based): finds races only on executed schedules", "trusted base: Go runtime"]
    return v.finish()
