"""Helpers of the priority engine: configurations, MC module generation from the real divider table,
state-graph dump, transition-cover paths."""
import json, os, random, re
from common import *
import tlaparse


def caps(cfg):
    return max(cfg["H"] // 10, len(cfg["prios"]))


def tla_seq(xs):
    return "<<" + ", ".join(str(x) for x in xs) + ">>"


def tla_fn(keys, f):
    return "(" + " @@ ".join("%s :> %s" % (k, f(k)) for k in keys) + ")"


def div_table(binary, cfg, sc):
    cfgp = os.path.join(sc, cfg["name"] + ".json")
    with open(cfgp, "w") as f:
        json.dump(cfg, f)
    rc, out, _ = run_test(binary, "TestDivTable$", env=dict(CFG=cfgp, OUT_DIR=sc), timeout=120)
    if rc != 0:
        raise Inconclusive("TestDivTable failed\n" + out[-2000:])
    rows = read_ndjson(os.path.join(sc, "divtable.ndjson"))
    return cfgp, rows


def write_mc(sc, cfg, rows, module="PrioV2", invariants=(), properties=(), spec="Spec", view=None, constraint=None, extra_defs=""):
    name = "MC_" + cfg["name"]
    pr = cfg["prios"]
    tbl = " @@\n  ".join("<<%s, %d>> :> %s" % (tla_seq(r["ps"]), r["d"], tla_seq(r["inc"])) for r in rows)
    with open(os.path.join(sc, name + ".tla"), "w") as f:
        f.write("---- MODULE %s ----\nEXTENDS %s\n" % (name, module))
        f.write("c_PrioSeq == %s\n" % tla_seq(pr))
        f.write("c_DivTbl ==\n  %s\n" % tbl)
        f.write("c_InCap == %s\n" % tla_fn(pr, lambda p: cfg["incap"][str(p)]))
        f.write("c_Items == %s\n" % tla_fn(pr, lambda p: cfg["items"][str(p)]))
        f.write(extra_defs)
        f.write("====\n")
    with open(os.path.join(sc, name + ".cfg"), "w") as f:
        f.write("SPECIFICATION %s\nCONSTANTS\n  PrioSeq <- c_PrioSeq\n  DivTbl <- c_DivTbl\n  InCap <- c_InCap\n  Items <- c_Items\n" % spec)
        f.write("  NoClose = {%s}\n" % ", ".join(str(x) for x in cfg.get("noclose", [])))
        f.write("  H = %d\n  OutCap = %d\n  FbCap = %d\n  FbLimit = %d\n  Saturated = %s\n  FaultBudget = %d\n" % (
            cfg["H"], caps(cfg), caps(cfg), caps(cfg), "TRUE" if cfg.get("saturated") else "FALSE", cfg.get("faults", 0)))
        for k, val in cfg.get("consts", {}).items():
            f.write("  %s = %s\n" % (k, val))
        if invariants:
            f.write("INVARIANTS " + " ".join(invariants) + "\n")
        if properties:
            f.write("PROPERTIES " + " ".join(properties) + "\n")
        if view:
            f.write("VIEW %s\n" % view)
        if constraint:
            f.write("CONSTRAINT %s\n" % constraint)
        f.write("CHECK_DEADLOCK FALSE\n")
    return name


def as_map(v, prios):
    """TLC prints a function with domain 1..n as a tuple, otherwise as (k :> v @@ ...)"""
    if isinstance(v, list):
        return {str(i + 1): v[i] for i in range(len(v))}
    if isinstance(v, dict) and "fn" in v:
        return {str(k): x for k, x in v["fn"].items()}
    raise ValueError("unexpected function value %r" % (v,))


def project_v2(st, prios):
    inq = as_map(st["inq"], prios)
    return dict(pc=st["pc"], actual=as_map(st["actual"], prios), tactic=as_map(st["tactic"], prios),
                drained=as_map(st["drained"], prios), inlen={k: len(v) for k, v in inq.items()},
                outlen=len(st["outq"]), fblen=len(st["fbq"]), pendlen=len(st["pendq"]),
                held=as_map(st["held"], prios), bad=st.get("bad", False), finfo=st.get("finfo", []))


LABEL = re.compile(r"^(\w+)(?:\((\d+)\))?$")


def cover_paths(dot, out_path, project, prios, max_len=400, limit=None, rnd=None):
    nodes, edges, init = tlaparse.load_dot(dot)
    paths = tlaparse.path_cover(nodes, edges, init, max_len=max_len, limit=limit, rnd=rnd)
    total = len(paths)
    proj = {}
    steps = 0
    with open(out_path, "w") as f:
        for p in paths:
            row = []
            for (_, dst, lab) in p:
                m = LABEL.match(lab)
                if dst not in proj:
                    proj[dst] = project(nodes[dst], prios)
                row.append(dict(a=m.group(1), arg=int(m.group(2) or 0), s=proj[dst]))
            steps += len(row)
            f.write(json.dumps(row) + "\n")
    return dict(nodes=len(nodes), edges=len(edges), paths_total=total, paths=len(paths), steps=steps)


# ------------------------------------------------------------------------------------------------ v1
def tla_bool(b):
    return "TRUE" if b else "FALSE"


def write_mc_v1(sc, cfg, rows, invariants=(), properties=(), spec="Spec", module="PrioV1", prefix="MC_"):
    name = prefix + cfg["name"]
    uni = cfg["prios"]
    chans = list(range(1, cfg["nc"] + 1))
    tbl = " @@\n  ".join("<<%s, %d>> :> %s" % (tla_seq(r["ps"]), r["d"], tla_seq(r["inc"])) for r in rows)
    with open(os.path.join(sc, name + ".tla"), "w") as f:
        f.write("---- MODULE %s ----\nEXTENDS %s\n" % (name, module))
        f.write("c_Universe == {%s}\n" % ", ".join(map(str, uni)))
        f.write("c_DivTbl ==\n  %s\n" % tbl)
        f.write("c_InitChan == %s\n" % tla_fn(uni, lambda p: cfg["initchan"][str(p)]))
        f.write("c_InCap == %s\n" % tla_fn(chans, lambda c: cfg["incap"][str(c)]))
        f.write("c_Items == %s\n" % tla_fn(chans, lambda c: cfg["items"][str(c)]))
        f.write("c_Adds == {%s}\n" % ", ".join("<<%d, %d>>" % (a[0], a[1]) for a in cfg.get("adds", [])))
        f.write("c_Rmvs == {%s}\n" % ", ".join(map(str, cfg.get("rmvs", []))))
        f.write("====\n")
    with open(os.path.join(sc, name + ".cfg"), "w") as f:
        f.write("SPECIFICATION %s\nCONSTANTS\n  Universe <- c_Universe\n  DivTbl <- c_DivTbl\n  InitChan <- c_InitChan\n  InCap <- c_InCap\n  Items <- c_Items\n  Adds <- c_Adds\n  Rmvs <- c_Rmvs\n" % spec)
        f.write("  NC = %d\n  H = %d\n  OutCap = %d\n  FbCap = %d\n  FbLimit = %d\n" % (cfg["nc"], cfg["H"], cfg["outcap"], cfg["fbcap"], max(cfg["H"] // 10, 1)))
        f.write("  AllowStop = %s\n  AllowCancel = %s\n  AllowGraceful = %s\n  FaultBudget = %d\n  F3Fixed = %s\n" % (
            tla_bool(cfg.get("stop")), tla_bool(cfg.get("cancel")), tla_bool(cfg.get("graceful")), cfg.get("faults", 0), tla_bool(cfg.get("f3fixed", True))))
        if invariants:
            f.write("INVARIANTS " + " ".join(invariants) + "\n")
        if properties:
            f.write("PROPERTIES " + " ".join(properties) + "\n")
        f.write("CHECK_DEADLOCK FALSE\n")
    return name
