import json
import pure
import prio
import cross
import limit
import join

CHECKS = {
    "C01": prio.check_C01,
    "C02": prio.check_C02,
    "C05": prio.check_C05,
    "C06": prio.check_C06,
    "C07": prio.check_C07,
    "C15": prio.check_C15,
    "C16": prio.check_C16,
    "C17": prio.check_C17,
    "C19": cross.check_C19,
    "C20": cross.check_C20,
    "C03": join.check_C03,
    "C08": join.check_C08,
    "C09": join.check_C09,
    "C10": join.check_C10,
    "C11": join.check_C11,
    "C04": limit.check_C04,
    "C12": limit.check_C12,
    "C13": pure.check_C13,
    "C14": pure.check_C14,
    "C18": pure.check_C18,
}


def replay(pid, path):
    """re-run the check that produced the replay file (the replay records the failing call / schedule)"""
    with open(path) as f:
        r = json.load(f)
    print("replaying", r.get("what", "")[:300])
    if pid in ("C04", "C12"):
        return limit.replay(pid, path)
    kind = r.get("replay", {}).get("kind")
    if kind == "prio-v2-replay":
        return prio.replay_file(pid, r)
    if kind in ("prio-v1-run", "prio-simple-run"):
        return prio.replay_run(pid, r)
    return CHECKS[pid]("quick")
