import json
import pure

CHECKS = {
    "C13": pure.check_C13,
    "C14": pure.check_C14,
    "C18": pure.check_C18,
}


def replay(pid, path):
    """re-run the check that produced the replay file (the replay records the failing call / schedule)"""
    with open(path) as f:
        r = json.load(f)
    print("replaying", r.get("what", "")[:300])
    return CHECKS[pid]("quick")
