"""Shared plumbing for the /verif checks: scratch dirs, TLC/Apalache runners, Go harness builder,
evidence writer, verdict helpers.  Standard library only."""
import json, os, re, shutil, subprocess, sys, tempfile, time, hashlib

VERIF = os.path.dirname(os.path.dirname(os.path.abspath(__file__)))
SPEC = os.path.join(VERIF, "spec")
HARNESS = os.path.join(VERIF, "harness")
EVIDENCE = os.environ.get("VERIF_EVIDENCE_DIR") or os.path.join(VERIF, "evidence")   # mutant trials (tools/seed_verify.py) write theirs elsewhere
REPLAYS = os.path.join(VERIF, "replays")
REPO = os.environ.get("VERIF_REPO", "/repo")

GOENV = dict(GOFLAGS="-mod=mod", GOPROXY="off", GOSUMDB="off", GOTOOLCHAIN="local")
GO = "go1.26.8"
NCPU = os.cpu_count() or 4


class Inconclusive(Exception):
    """tool crash / timeout / dead driver: exit 2, never a violation"""


def seed():
    try:
        return int(os.environ.get("VERIF_SEED", "1"))
    except ValueError:
        return 1


class Scratch:
    """temporary directory removed on exit (kept when VERIF_KEEP is set)"""

    def __init__(self, tag):
        self.tag = tag

    def __enter__(self):
        base = os.environ.get("TMPDIR") or "/tmp"
        self.path = tempfile.mkdtemp(prefix="verif-%s-" % self.tag, dir=base)
        return self.path

    def __exit__(self, *a):
        if not os.environ.get("VERIF_KEEP"):
            shutil.rmtree(self.path, ignore_errors=True)


def log(*a):
    print(*a, file=sys.stderr, flush=True)


def run(cmd, cwd=None, env=None, timeout=None, check=False, stdin=None):
    e = dict(os.environ)
    if env:
        e.update(env)
    t0 = time.time()
    try:
        p = subprocess.run(cmd, cwd=cwd, env=e, timeout=timeout, stdout=subprocess.PIPE,
                           stderr=subprocess.STDOUT, text=True, input=stdin, errors="replace")
    except subprocess.TimeoutExpired as ex:
        out = ex.stdout if isinstance(ex.stdout, str) else (ex.stdout or b"").decode("utf8", "replace")
        raise Inconclusive("timeout after %ss: %s\n%s" % (timeout, " ".join(map(str, cmd))[:300], out[-2000:]))
    if check and p.returncode != 0:
        raise Inconclusive("command failed rc=%d: %s\n%s" % (p.returncode, " ".join(map(str, cmd))[:300], p.stdout[-4000:]))
    return p.returncode, p.stdout, time.time() - t0


# --------------------------------------------------------------------------- TLC
def stage_specs(dst, names=None):
    """copy spec files into a scratch dir (tools litter their cwd)"""
    for f in os.listdir(SPEC):
        if f.endswith((".tla", ".cfg")) and (names is None or f in names or f.endswith(".tla")):
            shutil.copy(os.path.join(SPEC, f), dst)


class TLCResult:
    def __init__(self, rc, out, wall):
        self.rc, self.out, self.wall = rc, out, wall
        m = re.search(r"(\d+) states generated, (\d+) distinct states found, (\d+) states left", out)
        self.generated = int(m.group(1)) if m else 0
        self.distinct = int(m.group(2)) if m else 0
        self.left = int(m.group(3)) if m else -1
        self.finished = "Model checking completed" in out or "Finished in" in out
        self.noerror = "No error has been found" in out
        self.inv_violated = re.findall(r"Invariant (\S+) is violated", out)
        self.prop_violated = bool(re.search(r"Temporal propert(y|ies) .*violated", out)) or bool(re.search(r"Action property .* is violated", out))
        self.deadlock = "Deadlock reached" in out
        self.crashed = (not self.finished and not self.inv_violated and not self.prop_violated and not self.deadlock) or \
            "java.lang.OutOfMemoryError" in out or "StackOverflowError" in out
        m = re.search(r"The depth of the complete state graph search is (\d+)", out)
        self.depth = int(m.group(1)) if m else 0

    @property
    def ok(self):
        return self.finished and self.noerror and not self.crashed

    def prints(self):
        """values printed with Print/PrintT: lines not starting with TLC chatter"""
        return [l for l in self.out.splitlines()]


TLA_CP = "/opt/veriftools/tla/tla2tools.jar:/opt/veriftools/tla/CommunityModules-deps.jar"


def tlc(cwd, module, cfg=None, workers=None, timeout=600, extra=(), javaopts=None, deadlock=None):
    meta = tempfile.mkdtemp(prefix="meta-", dir=cwd)
    # same command line as the pre-installed `tlc` wrapper, plus a larger thread stack: the parser overflows the default one on large
    # generated divider tables, and the launcher takes -Xss for the main thread only from the command line
    cmd = ["java", "-Xss512m", "-XX:+UseParallelGC", "-cp", TLA_CP, "tlc2.TLC", "-metadir", meta, "-noGenerateSpecTE", "-workers", str(workers or min(NCPU, 14))]
    if cfg:
        cmd += ["-config", cfg]
    if deadlock is False:
        cmd += ["-deadlock"]
    cmd += list(extra) + [module]
    env = {}
    jtmp = os.path.join(cwd, "jtmp")
    os.makedirs(jtmp, exist_ok=True)
    # TLC litters java.io.tmpdir
    env["JAVA_TOOL_OPTIONS"] = ((javaopts + " ") if javaopts else "") + "-Djava.io.tmpdir=" + jtmp
    rc, out, wall = run(cmd, cwd=cwd, env=env, timeout=timeout)
    shutil.rmtree(meta, ignore_errors=True)
    return TLCResult(rc, out, wall)


def tlc_must_pass(res, what):
    """model-level failure is never a verdict about the code: raise Inconclusive unless handled by caller"""
    if not res.ok:
        raise Inconclusive("TLC did not pass cleanly for %s (rc=%s)\n%s" % (what, res.rc, res.out[-3000:]))
    return res


def apalache(cwd, module, args, timeout=300):
    out_dir = tempfile.mkdtemp(prefix="apa-", dir=cwd)
    cmd = ["apalache-mc", "check", "--out-dir=" + out_dir] + list(args) + [module]
    jtmp = os.path.join(cwd, "jtmp")
    os.makedirs(jtmp, exist_ok=True)
    rc, out, wall = run(cmd, cwd=cwd, timeout=timeout, env=dict(JVM_ARGS="-Djava.io.tmpdir=" + jtmp, TMPDIR=jtmp))
    shutil.rmtree(out_dir, ignore_errors=True)
    return rc, out, wall


def apalache_inductive(v, sc, module, twins, key, stage):
    """Init => IndInv and IndInv /\\ Next => IndInv' for spec/<module>.tla (symbolic parameters), plus twins (name, old text, new text, what)
    derived by substitution that must each yield a counter-example of the step. Any other outcome is inconclusive, never a verdict."""
    sub = os.path.join(sc, module.lower())
    os.makedirs(sub, exist_ok=True)
    stage(sub)
    src = open(os.path.join(sub, module + ".tla")).read()
    jobs = [(module + ".tla", ["--init=Init", "--inv=IndInv", "--length=0"], False), (module + ".tla", ["--init=IndInit", "--inv=IndInv", "--length=1"], False)]
    for name, old, newtxt, what in twins:
        if src.count(old) != 1:
            raise Inconclusive("cannot derive the twin %s of %s.tla" % (name, module))
        open(os.path.join(sub, name + ".tla"), "w").write(src.replace("MODULE " + module, "MODULE " + name).replace(old, newtxt))
        jobs.append((name + ".tla", ["--init=IndInit", "--inv=IndInv", "--length=1"], True))
    res = {}
    for mod, args, expect_error in jobs:
        rc, out, wall = apalache(sub, mod, args, timeout=600)
        err = "The outcome is: Error" in out
        if not err and "The outcome is: NoError" not in out:
            raise Inconclusive("apalache failed on %s %s\n%s" % (mod, args, out[-2000:]))
        if err != expect_error:
            raise Inconclusive("%s obligation %s %s: expected %s" % (module, mod, args, "a counter-example" if expect_error else "NoError"))
        res["%s %s" % (mod, " ".join(args))] = "counter-example (expected, twin)" if err else "NoError (%.0fs)" % wall
    v.cov[key] = res
    return res


# --------------------------------------------------------------------------- Go harness
def harness_dir():
    """the harness module directory; for VERIF_REPO != /repo (mutant trials on scratch worktrees) a private copy
    whose replace directives point at that tree"""
    if REPO == "/repo":
        return HARNESS
    d = os.path.join(os.environ.get("TMPDIR") or "/tmp", "verif-harness-%s-%d" % (hashlib.sha1(REPO.encode()).hexdigest()[:10], os.getpid()))
    if os.path.isdir(d):
        shutil.rmtree(d)
    shutil.copytree(HARNESS, d, ignore=shutil.ignore_patterns("*.test", "go.sum"))
    gm = open(os.path.join(d, "go.mod")).read().replace("=> /repo/v2", "=> %s/v2" % REPO).replace("=> /repo\n", "=> %s\n" % REPO)
    open(os.path.join(d, "go.mod"), "w").write(gm)
    return d


def go_sum(hd):
    """harness go.sum = union of the repository's two go.sum files (no network)"""
    lines = set()
    for f in (os.path.join(REPO, "go.sum"), os.path.join(REPO, "v2", "go.sum")):
        with open(f) as fh:
            lines.update(l for l in fh if l.strip())
    with open(os.path.join(hd, "go.sum"), "w") as fh:
        fh.writelines(sorted(lines))


def build_test(pkg, out, race=True, tags="verif", timeout=900):
    """go test -c of a harness package against the current working tree of the repository (VERIF_REPO, default /repo)"""
    hd = harness_dir()
    go_sum(hd)
    cmd = [GO, "test", "-c", "-vet=off", "-o", out]
    if race:
        cmd.append("-race")
    if tags:
        cmd += ["-tags", tags]
    cmd.append("./" + pkg)
    rc, o, wall = run(cmd, cwd=hd, env=GOENV, timeout=timeout)
    if hd != HARNESS:
        shutil.rmtree(hd, ignore_errors=True)
    if rc != 0:
        # a tree that does not compile with the hooks on is not a property violation
        raise Inconclusive("harness build failed for %s\n%s" % (pkg, o[-4000:]))
    return wall


def run_test(binary, run_re, env=None, timeout=900, cwd=None, extra=()):
    cmd = [binary, "-test.run", run_re, "-test.count=1", "-test.timeout", "%ds" % max(30, int(timeout - 10)), "-test.v"] + list(extra)
    e = dict(GOENV)
    e["VERIF_SEED"] = str(seed())
    if env:
        e.update({k: str(v) for k, v in env.items()})
    return run(cmd, cwd=cwd, env=e, timeout=timeout)


def races_in(output):
    return output.count("WARNING: DATA RACE")


# --------------------------------------------------------------------------- verdicts / evidence
class Verdict:
    def __init__(self, pid, tier, level):
        self.pid, self.tier, self.level = pid, tier, level
        self.t0 = time.time()
        self.cov = dict(evaluations=0, distinct_nontrivial=0, rule="", samples=[], states=0, transitions=0,
                        traces_validated_against_impl=0)
        self.assumptions = []
        self.violations = []  # (description, replay_path)
        self.known_hit = []
        self.notes = []
        self.pending = []   # inconclusive parts

    def add_tlc(self, res, name=None):
        self.cov["states"] += res.distinct
        self.cov["transitions"] += res.generated
        self.cov.setdefault("tlc_jobs", []).append(dict(job=name or "", distinct=res.distinct, generated=res.generated,
                                                          depth=res.depth, wall_s=round(res.wall, 1)))

    def sample(self, x, limit=6):
        if len(self.cov["samples"]) < limit:
            self.cov["samples"].append(x)

    def violation(self, desc, replay_obj):
        os.makedirs(REPLAYS, exist_ok=True)
        h = hashlib.sha1(json.dumps(replay_obj, sort_keys=True, default=str).encode()).hexdigest()[:12]
        path = os.path.join(REPLAYS, "%s-%s.json" % (self.pid, h))
        with open(path, "w") as f:
            json.dump(dict(property=self.pid, what=desc, replay=replay_obj), f, indent=1, default=str)
        self.violations.append((desc, path))

    def attempt(self, what, fn, *a, **kw):
        """run one part of a check; if the part is inconclusive (dead driver, tool failure) remember it and go on: violations found
        by the other parts are still reported, and only a run without violations ends inconclusive"""
        try:
            return fn(*a, **kw)
        except Inconclusive as e:
            log("[%s] part '%s' inconclusive: %s" % (self.pid, what, str(e)[:600].replace("\n", " | ")))
            self.pending.append("%s: %s" % (what, str(e)[:3000]))
            return None

    def finish(self):
        if self.pending and not self.violations:
            raise Inconclusive("part(s) of the check were inconclusive and no violation was found by the others:\n" + "\n".join(self.pending))
        if self.pending:
            self.notes.append("inconclusive parts (a violation was found by other parts): " + "; ".join(x[:200] for x in self.pending))
        os.makedirs(EVIDENCE, exist_ok=True)
        ev = dict(property_id=self.pid, tier=self.tier, seed=seed(), level=self.level, coverage=self.cov,
                  assumptions=self.assumptions, wall_s=round(time.time() - self.t0, 2), violations=len(self.violations))
        if self.known_hit:
            ev["coverage"]["known_findings_hit"] = self.known_hit
        if self.notes:
            ev["coverage"]["notes"] = self.notes
        with open(os.path.join(EVIDENCE, self.pid + ".json"), "w") as f:
            json.dump(ev, f, indent=1, default=str)
        for k in self.known_hit:
            print("KNOWN-FINDING: property=%s %s" % (self.pid, k))
        for desc, path in self.violations:
            log("violation:", desc)
            print("VIOLATION property=%s replay=%s" % (self.pid, path))
        sys.stdout.flush()
        return 1 if self.violations else 0


def known_findings():
    with open(os.path.join(VERIF, "KNOWN_FINDINGS.json")) as f:
        return json.load(f)


def read_ndjson(path):
    out = []
    with open(path) as f:
        for line in f:
            line = line.strip()
            if line:
                out.append(json.loads(line))
    return out
