#!/usr/bin/env python3
"""Minimal parser for TLC-printed TLA+ values and -dump dot,actionlabels graphs."""
import re, sys, json

class P:
    def __init__(self, s): self.s, self.i = s, 0
    def ws(self):
        while self.i < len(self.s) and self.s[self.i] in " \t\r\n": self.i += 1
    def peek(self, t): self.ws(); return self.s.startswith(t, self.i)
    def eat(self, t):
        self.ws()
        if not self.s.startswith(t, self.i): raise ValueError("expected %r at %r" % (t, self.s[self.i:self.i+30]))
        self.i += len(t)
    def value(self):
        self.ws(); s = self.s
        if self.peek("<<"):
            self.eat("<<"); out = []
            if self.peek(">>"): self.eat(">>"); return out
            while True:
                out.append(self.value())
                if self.peek(","): self.eat(","); continue
                self.eat(">>"); return out
        if self.peek("{"):
            self.eat("{"); out = []
            if self.peek("}"): self.eat("}"); return {"set": out}
            while True:
                out.append(self.value())
                if self.peek(","): self.eat(","); continue
                self.eat("}"); return {"set": out}
        if self.peek("["):
            self.eat("["); out = {}
            while True:
                self.ws(); m = re.match(r"[A-Za-z_][A-Za-z0-9_]*", s[self.i:]); k = m.group(0); self.i += len(k)
                self.eat("|->"); out[k] = self.value()
                if self.peek(","): self.eat(","); continue
                self.eat("]"); return out
        if self.peek("("):
            self.eat("("); out = {}
            while True:
                k = self.value(); self.eat(":>"); out[str(k)] = self.value()
                if self.peek("@@"): self.eat("@@"); continue
                self.eat(")"); return {"fn": out}
        if self.peek('"'):
            self.i += 1; j = s.index('"', self.i); v = s[self.i:j]; self.i = j + 1; return v
        m = re.match(r"-?\d+", s[self.i:])
        if m: self.i += len(m.group(0)); return int(m.group(0))
        m = re.match(r"TRUE|FALSE", s[self.i:])
        if m: self.i += len(m.group(0)); return m.group(0) == "TRUE"
        raise ValueError("cannot parse at %r" % s[self.i:self.i+40])

def parse_state(text):
    """text: '/\\ a = v\n/\\ b = w' -> dict"""
    st = {}
    for part in re.split(r"(?:^|\n)/\\ ", text):
        part = part.strip()
        if not part: continue
        name, val = part.split(" = ", 1)
        st[name.strip()] = P(val).value()
    return st

class LazyStates(dict):
    """node id -> parsed state, parsed from the raw dot label on first use"""
    def __init__(self):
        super().__init__()
        self.raw = {}
    def __missing__(self, k):
        txt = self.raw[k].replace('\\n', '\n').replace('\\"', '"').replace('\\\\', '\\')
        v = parse_state(txt)
        self[k] = v
        return v
    def __len__(self):
        return len(self.raw)
    def __contains__(self, k):
        return k in self.raw


def load_dot(path):
    nodes, edges, init = LazyStates(), [], None
    node_re = re.compile(r'^(-?\d+) \[label="(.*?)(?<!\\)"(,|\])')
    edge_re = re.compile(r'^(-?\d+) -> (-?\d+) \[label="(.*?)"')
    with open(path) as f:
        for line in f:
            if " -> " in line[:48]:
                m = edge_re.match(line)
                if m:
                    edges.append((m.group(1), m.group(2), m.group(3))); continue
            m = node_re.match(line)
            if m:
                nodes.raw[m.group(1)] = m.group(2)
                if "style = filled" in line and init is None: init = m.group(1)
    return nodes, edges, init

def path_cover(nodes, edges, init, max_len=400, limit=None, rnd=None):
    """paths from the initial state such that every edge occurs in at least one path (BFS-tree prefix to the edge's
    source, the edge, then a greedy walk over still uncovered edges); with limit: stop after that many paths, edges
    taken in the order given by rnd"""
    from collections import defaultdict, deque
    out = defaultdict(list)
    for e in edges: out[e[0]].append(e)
    parent = {init: None}; dq = deque([init])
    while dq:
        u = dq.popleft()
        for e in out[u]:
            if e[1] not in parent: parent[e[1]] = e; dq.append(e[1])
    def prefix(u):
        p = []
        while parent[u] is not None: p.append(parent[u]); u = parent[u][0]
        return p[::-1]
    order = list(edges)
    if rnd is not None:
        rnd.shuffle(order)
    covered = set(); paths = []
    for e in order:
        if e in covered or e[0] not in parent or e[0] == e[1]: continue
        p = prefix(e[0]) + [e]; cur = e[1]
        for x in p: covered.add(x)
        while len(p) < max_len:
            nxt = [x for x in out[cur] if x not in covered and x[0] != x[1]]
            if not nxt: break
            p.append(nxt[0]); covered.add(nxt[0]); cur = nxt[0][1]
        paths.append(p)
        if limit and len(paths) >= limit:
            break
    return paths
