"""limit-engine: C04 (never faster than Quantity per Interval, burst <= 2*Quantity) and C12 (lossless ordered
pass-through, closes after the input, no extra throttling) of the v2 limit discipline.

  U1  TLC checks the explicit-time specification spec/Limit.tla in bounded configurations (free / urgent / exact
      regimes, full emission history in a tiny configuration, liveness under fairness, vacuity twins).
  B1  harness/limith drives the REAL limit.Discipline inside testing/synctest bubbles in lock-step, under -race, from
      seeded profiles and from schedules TLC generated from the specification (edge cover of the dumped state graph
      of the lock-step configuration), and records the observables after every environment action.
  U3  TLC validates every recorded trace (a) against Trace_Limit.tla = Limit.tla's own actions (strict conformance;
      a rejection is DRIFT, recorded in the evidence, exit 0) and (b) against the property monitors of Mon_Limit.tla
      over observed facts only.  ONLY a monitor rejection of a trace recorded from the real code is a VIOLATION.
"""
import collections, hashlib, json, os, random, re
from common import *

UNITS_NS = [1000, 7000, 10 ** 6, 25 * 10 ** 7, 10 ** 9]          # 1 us .. 1 s of virtual time per model unit
ENV_TOKEN = {"Write": "W", "CloseIn": "C", "ConsumerRecv": "R", "Advance": "A"}
VERDICT_PREFIX = {"C04": "C04_", "C12": "C12_"}


def tlc_here(sc, module, **kw):
    """TLC with its JVM temp dir inside the scratch dir (TLC leaves a tlc-* directory in java.io.tmpdir on every run).
    Heap: the wrapper's default (25 % of RAM); measured: the 25 M-state history configuration takes 101 s with it and 208 s
    with -Xmx8g.  A TLC killed by the OOM killer (several checks side by side) surfaces as Inconclusive, never as a verdict."""
    jt = os.path.join(sc, "jtmp")
    os.makedirs(jt, exist_ok=True)
    return tlc(sc, module, javaopts="-Djava.io.tmpdir=" + jt, **kw)


# ------------------------------------------------------------------------------------------------ U1 design checks
def design_jobs(pid, tier):
    """(cfg suffix, description, expectation) ; expectation: 'pass' | ('inv', name) | 'prop'"""
    T = "" if tier == "quick" else "_T"
    if pid == "C04":
        return [("free" + T, "free regime (time may pass while the discipline is runnable; producer/consumer free): structural invariants", "pass"),
                ("hist" + T, "free regime with the full emission history: cumulative + pairwise window formula over all pairs", "pass"),
                ("hist_vac", "vacuity twin: window formula with +1 instead of +2 must fail (2*Quantity burst reachable)", ("inv", "C04_PairTight")),
                ("exact" + T, "urgent + ready consumer + eager producer, emission history", "pass")] + \
               ([("urgent_T", "urgent regime (virtual clock)", "pass")] if tier != "quick" else [])
    return [("urgent" + T, "urgent regime (virtual clock): order, closing, structure", "pass"),
            ("live" + T, "liveness inClosed ~> outClosed /\\ everything received, WF(discipline, consumer, clock)", "pass"),
            ("live_vac", "vacuity twin: without a fair consumer the liveness property must fail", "prop"),
            ("exact" + T, "exact schedule: element j emitted at (j div Q)*I, close at max(t_close, (N div Q)*I)", "pass"),
            ("exact_vac", "vacuity twin: 'every emission at time 0' must fail in the exact regime", ("inv", "C12_AllAtZero"))] + \
           ([("free_T", "free regime: order, closing, structure", "pass")] if tier != "quick" else [])


def run_design(pid, tier, sc, v):
    for suffix, what, expect in design_jobs(pid, tier):
        cfg = "MC_Limit_%s.cfg" % suffix
        res = tlc_here(sc, "MC_Limit", cfg=cfg, timeout=1500)
        name = "%s: %s" % (cfg, what)
        if expect == "pass":
            # a counter-example on the model alone is a lead, never a verdict
            tlc_must_pass(res, name)
            v.add_tlc(res, name)
        elif expect == "prop":
            if not (res.prop_violated or re.search(r"Temporal propert(y|ies) .*violated", res.out)):
                raise Inconclusive("vacuity guard did not fire: %s\n%s" % (name, res.out[-1500:]))
        else:
            if expect[1] not in res.inv_violated:
                raise Inconclusive("vacuity guard did not fire: %s\n%s" % (name, res.out[-1500:]))


# ------------------------------------------------------------------------------------------------ U1b symbolic rate (Apalache)
LIMITIND_TWINS = [
    ("LimEarly", "now >= wakeAt /\\ pc' = \"Start\"", "now >= wakeAt - 1 /\\ pc' = \"Start\"", "Sleep returns one unit early"),
    ("LimSkip", "THEN wakeAt' = now + (iv - (now - startedAt)) /\\ pc' = \"Sleep\"", "THEN wakeAt' = wakeAt /\\ pc' = \"Start\"", "the pause after a batch is skipped (seeded change C04-d)"),
    ("LimRel", "/\\ prevStart' = startedAt /\\ startedAt' = now /\\ k' = 0", "/\\ prevStart' = startedAt /\\ startedAt' = now - 1 /\\ k' = 0", "the batch start is back-dated (relative pacing, seeded changes C04-a/c)"),
]


def limitind_C04(v, sc):
    """C04 for EVERY Quantity, Interval and instant: LimitInd.tla (counter abstraction of Limit.tla, symbolic q and iv, unbounded time) -
    Apalache discharges Init => IndInv and IndInv /\\ Next => IndInv' (IndInv contains the linear form of C04 and the spacing of batch starts);
    three twins mirroring the seeded changes of the limiter must each yield a counter-example; TLC checks the arithmetic bridge on a grid"""
    sub = os.path.join(sc, "limitind")
    os.makedirs(sub, exist_ok=True)
    stage_specs(sub)
    src = open(os.path.join(sub, "LimitInd.tla")).read()
    jobs = [("LimitInd.tla", ["--init=Init", "--inv=IndInv", "--length=0"], False), ("LimitInd.tla", ["--init=IndInit", "--inv=IndInv", "--length=1"], False)]
    for name, old, newtxt, what in LIMITIND_TWINS:
        if src.count(old) != 1:
            raise Inconclusive("cannot derive the twin %s of LimitInd.tla" % name)
        open(os.path.join(sub, name + ".tla"), "w").write(src.replace("MODULE LimitInd", "MODULE " + name).replace(old, newtxt))
        jobs.append((name + ".tla", ["--init=IndInit", "--inv=IndInv", "--length=1"], True))
    res = {}
    for mod, args, expect_error in jobs:
        rc, out, wall = apalache(sub, mod, args, timeout=600)
        err = "The outcome is: Error" in out
        if not err and "The outcome is: NoError" not in out:
            raise Inconclusive("apalache failed on %s %s\n%s" % (mod, args, out[-2000:]))
        if err != expect_error:
            raise Inconclusive("LimitInd obligation %s %s: expected %s" % (mod, args, "a counter-example" if expect_error else "NoError"))
        res["%s %s" % (mod, " ".join(args))] = "counter-example (expected, twin)" if err else "NoError (%.0fs)" % wall
    br = tlc_here(sub, "MC_LimitInd", cfg="MC_LimitInd.cfg", timeout=300)
    tlc_must_pass(br, "MC_LimitInd (arithmetic bridge between the linear form and the formula of C04)")
    res["MC_LimitInd Bridge/Tight (TLC, grid)"] = "holds"
    v.cov["apalache_inductive_rate_bound"] = res
    v.notes.append("C04 cumulative bound and the spacing of batch starts proved inductive for every Quantity, Interval and instant on the counter "
                   "abstraction LimitInd.tla (Apalache); twins: " + "; ".join(t[3] for t in LIMITIND_TWINS) + " - each rejected")


# ------------------------------------------------------------------------------------------------ U3 fan-out: several disciplines, one input channel
def shared_limit(pid, v, sc, binary):
    """several limit disciplines fed from ONE input channel (harness/limith/shared_test.go), virtual time; judged by Mon_LimitShared.tla:
    C04 per discipline (its own cumulative bound), C12 jointly (every element on exactly one output, each output increasing, all outputs close)"""
    sub = os.path.join(sc, "shared")
    os.makedirs(sub, exist_ok=True)
    stage_specs(sub)
    rc, out, wall = run_test(binary, "TestRecordSharedLimit$", env=dict(OUT_DIR=sub, SHARED_RUNS=16 if v.tier == "quick" else 400), timeout=900)
    if rc != 0 or "SHAREDLIMIT runs=" not in out:
        raise Inconclusive("shared-input limit recorder died\n" + out[-3000:])
    recs = [json.loads(l) for l in open(os.path.join(sub, "limit_shared.ndjson"))]

    def judge(d, n):
        res = tlc_here(d, "Mon_LimitShared", cfg="Mon_LimitShared.cfg", workers=1, timeout=600)
        if res.crashed or not res.finished and not res.inv_violated or res.distinct < n + 1:
            raise Inconclusive("Mon_LimitShared did not consume the whole log (%d records, %d states)\n%s" % (n, res.distinct, res.out[-2000:]))
        sets = re.findall(r"/\\ viol = \{(.*)\}", res.out) if res.inv_violated else []
        found = [(int(a), b) for a, b in re.findall(r'<<(\d+), "(C\d+)">>', sets[-1])] if sets else []
        if res.inv_violated and not found:
            raise Inconclusive("Mon_LimitShared rejects the log but the findings cannot be read\n" + res.out[-2000:])
        return res, found
    res, found = judge(sub, len(recs))
    mine = sorted({tr for tr, p in found if p == pid})
    by_tr = {}
    for r in recs:
        by_tr.setdefault(r["tr"], []).append(r)
    for tr in mine[:3]:
        c = by_tr[tr][0]
        v.violation("%s: %d limit disciplines (%d per %d units each) fed from one input channel: Mon_LimitShared rejects shared-input trace %d (%s)"
                    % (pid, c["n"], c["Q"], c["I"], tr, "a discipline emitted more than Quantity*(floor(t/Interval)+1) elements by some instant" if pid == "C04"
                       else "an element lost, duplicated or out of order on an output, or an output left open"), dict(kind="limit-shared", trace=by_tr[tr][:400]))
    guard = "skipped"
    if not found and pid == "C12":   # binding / vacuity guard: the same log without one delivered element must be rejected for exactly that trace
        idx = max(i for i, r in enumerate(recs) if r["ev"] == "O")
        sub2 = os.path.join(sub, "corrupt")
        os.makedirs(sub2, exist_ok=True)
        stage_specs(sub2)
        with open(os.path.join(sub2, "limit_shared.ndjson"), "w") as f:
            for i, r in enumerate(recs):
                if i != idx:
                    f.write(json.dumps(r) + "\n")
        res2, found2 = judge(sub2, len(recs) - 1)
        if found2 != [(recs[idx]["tr"], "C12")]:
            raise Inconclusive("Mon_LimitShared does not reject a log with one lost element (vacuity guard): %r" % (found2,))
        guard = "one delivered element removed: rejected (C12) for exactly that trace"
    tight, cnt, cfg, victim = 0, {}, None, None
    for i, r in enumerate(recs):
        if r["ev"] == "Reset":
            cnt, cfg = {}, r
        elif r["ev"] == "O":
            cnt[r["d"]] = cnt.get(r["d"], 0) + 1
            if cnt[r["d"]] == cfg["Q"] * (r["now"] // cfg["I"] + 1):
                tight += 1
                if r["now"] >= cfg["I"] and victim is None:
                    victim = (i, cfg["I"])
    if not found and pid == "C04":   # binding / vacuity guard: an emission that sits AT the bound, moved one Interval earlier, must be rejected (C04)
        if victim is None:
            guard = "skipped: no emission at the cumulative bound after the first interval in this run"
        else:
            sub3 = os.path.join(sub, "corrupt04")
            os.makedirs(sub3, exist_ok=True)
            stage_specs(sub3)
            with open(os.path.join(sub3, "limit_shared.ndjson"), "w") as f:
                for i, r in enumerate(recs):
                    f.write(json.dumps(dict(r, now=r["now"] - victim[1]) if i == victim[0] else r) + "\n")
            res3, found3 = judge(sub3, len(recs))
            if (recs[victim[0]]["tr"], "C04") not in found3:
                raise Inconclusive("Mon_LimitShared does not reject an emission moved one Interval earlier (vacuity guard): %r" % (found3,))
            guard = "an emission at the bound moved one Interval earlier: rejected (C04)"
    v.cov["shared_input"] = dict(traces=len(by_tr), disciplines=sum(t[0]["n"] for t in by_tr.values()), elements=sum(1 for r in recs if r["ev"] == "O"),
                                 emissions_exactly_at_the_cumulative_bound=tight, monitor_states=res.distinct, violations=len(mine),
                                 other_property_findings=sorted({p for _, p in found if p != pid}), corruption_guard=guard, wall_s=round(wall, 1))


# ------------------------------------------------------------------------------------------------ U2 schedules from TLC
def load_graph(path):
    """-dump dot,actionlabels -> (init nodes {id: cfg}, edges [(src, dst, label)])"""
    inits, edges = {}, []
    edge_re = re.compile(r'^(-?\d+) -> (-?\d+) \[label="([A-Za-z]+)"')
    with open(path) as f:
        for line in f:
            m = edge_re.match(line)
            if m:
                edges.append((m.group(1), m.group(2), m.group(3)))
            elif "style = filled" in line:
                nid = line.split(" ", 1)[0]
                c = re.search(r"cfg = \[Q \|-> (\d+), I \|-> (\d+), C \|-> (\d+)\]", line)
                inits[nid] = tuple(int(x) for x in c.groups())
    return inits, sorted(set(edges))      # TLC's dump order depends on worker scheduling: make everything downstream deterministic


def edge_cover(inits, edges, rng, max_len=120):
    """paths from an initial state such that every edge of the graph lies on at least one path"""
    out = collections.defaultdict(list)
    for e in edges:
        if e[0] != e[1]:
            out[e[0]].append(e)
    parent = {i: None for i in inits}
    dq = collections.deque(sorted(inits))
    while dq:
        u = dq.popleft()
        for e in out[u]:
            if e[1] not in parent:
                parent[e[1]] = e
                dq.append(e[1])

    def prefix(u):
        p = []
        while parent[u] is not None:
            p.append(parent[u])
            u = parent[u][0]
        return p[::-1]

    covered, paths = set(), []
    order = sorted({e for e in edges if e[0] != e[1] and e[0] in parent})
    rng.shuffle(order)
    for e in order:
        if e in covered:
            continue
        p = prefix(e[0]) + [e]
        covered.update(p)
        cur = e[1]
        while len(p) < max_len:
            nxt = [x for x in out[cur] if x not in covered]
            if not nxt:
                break
            x = nxt[rng.randrange(len(nxt))]
            p.append(x)
            covered.add(x)
            cur = x[1]
        paths.append(p)
    return paths, len(covered), len(order)


def tlc_schedules(tier, sc, v, rng, limit):
    suffix = "gen" if tier == "quick" else "gen_T"
    dot = os.path.join(sc, "limit_gen.dot")
    res = tlc_here(sc, "MC_Limit", cfg="MC_Limit_%s.cfg" % suffix, timeout=900, extra=["-fp", "0", "-dump", "dot,actionlabels", dot])     # fixed fingerprint polynomial: stable node ids
    tlc_must_pass(res, "MC_Limit_%s (schedule generation)" % suffix)
    v.add_tlc(res, "MC_Limit_%s.cfg: lock-step regime, state graph dumped for schedule generation" % suffix)
    inits, edges = load_graph(dot)
    os.remove(dot)
    labels = collections.Counter(e[2] for e in edges)
    missing = [a for a in ("Start", "Recv", "SeeClosed", "Put", "EndBatch", "Wake", "Write", "CloseIn", "ConsumerRecv", "Advance") if not labels[a]]
    if missing:
        raise Inconclusive("vacuity guard: actions never taken in the generation graph: %s" % missing)
    paths, covered, total = edge_cover(inits, edges, rng)
    full = covered == total and len(paths) <= limit
    rng.shuffle(paths)
    scheds = []
    for p in paths[:limit]:
        root = p[0][0]
        q, i, c = inits[root]
        toks = "".join(ENV_TOKEN.get(lab, "") for _, _, lab in p)
        scheds.append(dict(kind="sched", q=q, i=i, cap=c, n=toks.count("W"), tokens=toks, src="tlc"))
    return scheds, dict(graph_states=res.distinct, graph_edges=total, cover_paths=len(paths), paths_used=len(scheds),
                        edges_covered_by_all_paths=covered, full_transition_cover=full, action_edges=dict(labels))


# ------------------------------------------------------------------------------------------------ seeded scenarios
def seeded_scenarios(tier, rng, grid=True):
    scs = []
    quick = tier == "quick"
    # boundary grid of C12: everything up-front, ready consumer
    for q in (1, 2, 3, 1000) if grid else ():
        ns = sorted({0, 1, q - 1, q, q + 1, 2 * q, 2 * q + 1}) if q < 100 else [0, 1, 5, 17]
        for n in ns:
            for cap in (0, 4) if quick else (0, 1, 4, 32):
                for cd in (0, 2) if quick else (0, 1, 2, 5):
                    for i in (3,) if quick else (1, 3, 4):
                        scs.append(dict(kind="random", q=q, i=i, cap=cap, n=n, units=(n // q + 2) * i + cd + 1, prod="eager", cons="ready",
                                        close_delay=cd, src="grid"))
    # trickle with a ready consumer (fewer than Quantity pass with no pause)
    for q in (1, 2, 3, 5, 1000) if grid else ():
        for gap in (1, 2, 5):
            for cap in (0, 3):
                scs.append(dict(kind="random", q=q, i=4, cap=cap, n=7, units=7 * gap + 6, prod="trickle", gap=gap, cons="ready",
                                close_delay=-1, src="trickle"))
    # seeded profiles
    for _ in range(240 if quick else 3600):
        q = rng.choice([1, 1, 2, 2, 3, 3, 4, 5, 7, 1000, 100000])
        i = rng.choice([1, 2, 2, 3, 4, 5, 8, 10])
        n = rng.randrange(0, min(3 * q + 3, 26) + 1)
        scs.append(dict(kind="random", q=q, i=i, cap=rng.choice([0, 0, 1, 2, 3, 5, 8, 16]), n=n, units=rng.randrange(i, 9 * i + 1),
                        prod=rng.choice(["prefill", "eager", "trickle", "stallburst", "stallburst", "free"]),
                        cons=rng.choice(["ready", "ready", "slow", "stall", "free"]),
                        gap=rng.randrange(1, 2 * i + 2), cgap=rng.randrange(1, 2 * i + 2), close_delay=-1, src="profile"))
    # huge quantities (valid rates used as "no limit": 2^63, 2^64-1); reported to the monitor as q = 100000 > any element count
    for qh in (1, 2):
        for n in (0, 1, 5):
            for cap in (0, 3):
                scs.append(dict(kind="random", q=100000, qhuge=qh, i=3, cap=cap, n=n, units=8, prod="eager", cons="ready", close_delay=1, src="hugeq"))
    # long traces: >= 40 intervals (an interval that is 10 % too short only shows after many intervals)
    for k in range(12 if quick else 96):
        q = rng.choice([1, 2, 3, 4])
        i = [10, 1, 4, 10, 2, 5, 10, 3][k % 8]
        iv = rng.randrange(42, 56)
        if k % 4 < 2:
            prod, cons = "eager", "ready"
        else:
            prod, cons = rng.choice(["stallburst", "prefill", "free", "eager"]), rng.choice(["slow", "stall", "free", "ready"])
        scs.append(dict(kind="random", q=q, i=i, cap=rng.choice([0, 1, 3, 8]), n=q * iv, units=(iv + 2) * i, prod=prod, cons=cons,
                        gap=1, cgap=rng.randrange(1, i + 1), close_delay=rng.randrange(0, 3), src="long"))
    return scs


def finalize(scs, rng):
    for k, s in enumerate(scs):
        s["tr"] = k + 1
        s.setdefault("unit_ns", UNITS_NS[k % len(UNITS_NS)])
        s.setdefault("seed", rng.randrange(1, 2 ** 31))
        for f, d in (("units", 0), ("prod", ""), ("cons", ""), ("gap", 1), ("cgap", 1), ("close_delay", 0), ("tokens", "")):
            s.setdefault(f, d)
    return scs


# ------------------------------------------------------------------------------------------------ recording + validation
def record(sc, binary, scs):
    with open(os.path.join(sc, "limit_scen.json"), "w") as f:
        json.dump(scs, f)
    rc, out, wall = run_test(binary, "TestRecordLimit$", env=dict(LIMIT_SCEN=os.path.join(sc, "limit_scen.json"), OUT_DIR=sc), timeout=1500)
    m = re.search(r"RECORDED traces=(\d+) events=(\d+) skipped=(\d+)", out)
    tf = os.path.join(sc, "limit_trace.ndjson")
    stuck = (rc != 0 and not m and "blocked goroutines remain" in out and "limit.(*Discipline" in out
             and os.path.exists(tf) and os.path.getsize(tf) > 0 and not races_in(out))
    if stuck:
        # the discipline's goroutine never ended, so the bubble could not be left: every trace recorded so far, including the
        # offending one (flushed from inside the bubble), is still judged by the monitor
        log("limit recorder ended early: a goroutine of the discipline never terminates; judging the %d bytes recorded" % os.path.getsize(tf))
        m = re.match(r"(\d+) (\d+) (\d+)", "%d 0 0" % len(scs))
    elif rc != 0 or not m or races_in(out):
        raise Inconclusive("limit recorder failed (rc=%s, races=%d)\n%s" % (rc, races_in(out), out[-3000:]))
    if int(m.group(1)) != len(scs):
        raise Inconclusive("limit recorder: trace count mismatch")
    traces = collections.OrderedDict()
    pos = {}
    for n, r in enumerate(read_ndjson(os.path.join(sc, "limit_trace.ndjson")), 1):
        if r["off"] != 0:
            raise Inconclusive("harness observation off the unit grid (virtual clock assumption broken): %s" % r)
        traces.setdefault(r["tr"], []).append(r)
        pos.setdefault(r["tr"], n)
    return traces, pos, int(m.group(2)), int(m.group(3)), wall


def validate_strict(sc, v, traces, pos):
    res = tlc_here(sc, "Trace_Limit", cfg="Trace_Limit.cfg", workers=1, timeout=1500)
    if not res.ok:
        raise Inconclusive("TLC failed on Trace_Limit (strict conformance)\n%s" % res.out[-3000:])
    v.add_tlc(res, "Trace_Limit: strict conformance of the recorded traces with Limit.tla")
    flat = re.sub(r"\s+", "", res.out)
    accepted = {int(x) for x in re.findall(r'<<"ACCEPT",(\d+)>>', flat)}
    hw = {int(a): int(b) for a, b in re.findall(r'<<"HW",(\d+),(\d+)>>', flat)}
    drift = []
    for tr, recs in traces.items():
        if tr not in accepted:
            k = hw.get(tr, pos[tr]) - pos[tr] + 1           # records matched, 0-based index of the first unmatched one
            drift.append(dict(tr=tr, matched_records=k, of=len(recs), diverging=recs[k] if k < len(recs) else "final observation",
                              previous=recs[k - 1] if 0 < k <= len(recs) else None))
    return accepted, drift


def validate_monitor(sc, v, traces):
    res = tlc_here(sc, "Mon_Limit", cfg="Mon_Limit.cfg", workers=8, timeout=1500)
    if not res.ok:
        raise Inconclusive("TLC failed on Mon_Limit (property monitors)\n%s" % res.out[-3000:])
    v.add_tlc(res, "Mon_Limit: C04/C12 monitors over observed facts of the recorded traces")
    verdicts = {}
    flat = re.sub(r"\s+", "", res.out)          # PrintT pretty-prints long values over several lines
    for m in re.finditer(r'<<"VERDICT",(\d+),\{(.*?)\},<<(TRUE|FALSE),(TRUE|FALSE),(TRUE|FALSE),(\d+)>>>>', flat):
        clauses = re.findall(r'<<"(\w+)",(\d+)>>', m.group(2))
        verdicts[int(m.group(1))] = dict(bad={c: int(n) for c, n in clauses}, ready=m.group(3) == "TRUE", eager=m.group(4) == "TRUE",
                                         closed=m.group(5) == "TRUE", emitted=int(m.group(6)))
    if set(verdicts) != set(traces):
        raise Inconclusive("monitor did not judge every trace (%d of %d)\n%s" % (len(verdicts), len(traces), res.out[-2000:]))
    return verdicts


def throttled(recs, ocap):
    """the rate limit was binding: a clock step was taken although an element was available and the output had room"""
    return any(b["ev"] == "Adv" and a["inlen"] >= 1 and a["outlen"] < ocap for a, b in zip(recs, recs[1:]))


def judge(pid, v, sc, binary, scs):
    """record the scenarios on the real code, validate (strict + monitor), file the violations of this property"""
    traces, pos, events, skipped, rec_wall = record(sc, binary, scs)
    accepted, drift = validate_strict(sc, v, traces, pos)
    verdicts = validate_monitor(sc, v, traces)

    by_tr = {s["tr"]: s for s in scs}
    prefix = VERDICT_PREFIX[pid]
    bad = [(tr, {c: n for c, n in vd["bad"].items() if c.startswith(prefix)}) for tr, vd in sorted(verdicts.items())]
    bad = [(tr, b) for tr, b in bad if b]
    other = sum(1 for vd in verdicts.values() if any(not c.startswith(prefix) and not c.startswith("X") for c in vd["bad"]))
    xdrift = [tr for tr, vd in verdicts.items() if any(c.startswith("X") for c in vd["bad"])]
    # prefer short traces as witnesses
    bad.sort(key=lambda x: len(traces[x[0]]))
    for tr, b in bad[:5]:
        recs = traces[tr]
        first = min(b.values()) - pos[tr]
        s = by_tr[tr]
        desc = "%s: monitor clause(s) %s rejected a trace of the real limit discipline (Quantity %s, Interval %s units of %s ns, cap(input) %s); " \
               "first offending record #%d: %s" % (pid, sorted(b), s["q"], s["i"], s["unit_ns"], s["cap"], first, json.dumps(recs[first]))
        v.violation(desc, dict(kind="limit-trace", config=dict(quantity=s["q"], interval_units=s["i"], unit_ns=s["unit_ns"], cap=s["cap"]),
                               seed=seed(), scenario=s, schedule="".join(dict(Write="W", Close="C", Recv="R", Adv="A").get(r["ev"], "") for r in recs),
                               clauses=b, first_offending_record=first, trace=recs))
    return traces, pos, events, skipped, rec_wall, accepted, drift, verdicts, bad, xdrift, other


def run_limit(pid, tier):
    v = Verdict(pid, tier, "model_checking")
    seeds = [seed()] if tier == "quick" else [seed(), seed() * 7919 + 17, seed() * 104729 + 5]
    with Scratch(pid.lower()) as sc:
        stage_specs(sc)
        run_design(pid, tier, sc, v)
        if pid == "C04":
            limitind_C04(v, sc)
        binary = os.path.join(sc, "limith.test")
        build_test("limith", binary, race=True)
        v.attempt("shared-input part", shared_limit, pid, v, sc, binary)
        rng = random.Random(seeds[0] * 1000003 + (4 if pid == "C04" else 12))
        scheds, geninfo = tlc_schedules(tier, sc, v, rng, limit=900 if tier == "quick" else 12000)
        scs = list(scheds)
        for s in seeds:
            scs += seeded_scenarios(tier, random.Random(s * 1000003 + (4 if pid == "C04" else 12)), grid=s == seeds[0])
        finalize(scs, rng)
        traces, pos, events, skipped, rec_wall, accepted, drift, verdicts, bad, xdrift, other = judge(pid, v, sc, binary, scs)
        by_tr = {s["tr"]: s for s in scs}
        # coverage
        nontriv, lifecycle, exact = set(), 0, 0
        for tr, recs in traces.items():
            vd = verdicts[tr]
            h = hashlib.sha1(json.dumps([(recs[0]["q"], recs[0]["i"], recs[0]["cap"])] + [(r["ev"], r["now"]) for r in recs]).encode()).hexdigest()
            full = vd["closed"] and vd["emitted"] >= 1
            lifecycle += full
            ex = vd["ready"] and vd["eager"] and vd["emitted"] > recs[0]["q"]
            exact += ex
            if pid == "C04" and throttled(recs, recs[0]["ocap"]) or pid == "C12" and full:
                nontriv.add(h)
        badset = {tr for tr, _ in bad}
        validated = sum(1 for tr in traces if tr in accepted and tr not in badset)
        longest = max(traces.values(), key=lambda r: r[-1]["now"] // max(r[0]["i"], 1))
        rule04 = "non-trivial = the rate limit was binding in the trace: some clock step was taken while an element was available in the input " \
                 "and the output had room (the discipline was in its delay)"
        rule12 = "non-trivial = at least one element was forwarded and Output() was seen closed after the input was closed (full life cycle)"
        v.cov.update(
            evaluations=len(traces), distinct_nontrivial=len(nontriv),
            rule="lock-step traces of the real v2 limit.Discipline in synctest bubbles under -race: (1) schedules generated by TLC from Limit.tla "
                 "(edge cover of the dumped lock-step state graph, %d paths), (2) the C12 boundary grid N in {0,1,Q-1,Q,Q+1,2Q,2Q+1} x Q in {1,2,3,1000} "
                 "x capacities x close delays with an eager producer and a ready consumer, (3) seeded profiles: Quantity 1..100000, Interval 1..10 units of "
                 "1 us..1 s, cap(input) 0..16, arrival prefilled/eager/trickle/stall-then-burst/free x consumer ready/slow/stalling/free, (4) long traces "
                 "of 42..55 intervals; seeds %s. Every trace is judged by TLC: Trace_Limit (strict) and Mon_Limit (property). %s; distinct by hash of "
                 "(configuration, event sequence with times)" % (len(scheds), seeds, rule04 if pid == "C04" else rule12),
            traces_validated_against_impl=validated, exhaustive=bool(geninfo["full_transition_cover"]),
            drift=len(drift), drift_samples=drift[:3], monitor_conformance_notes=len(xdrift), other_property_clauses=other,
            events=events, schedule_tokens_skipped=skipped, traces_by_source=dict(collections.Counter(s["src"] for s in scs)),
            full_lifecycle_traces=lifecycle, exact_schedule_traces=exact, throttled_traces=sum(1 for r in traces.values() if throttled(r, r[0]["ocap"])),
            longest_trace_intervals=longest[-1]["now"] // max(longest[0]["i"], 1), schedule_generation=geninfo, record_wall_s=round(rec_wall, 1))
        for tr in [t for t in traces if by_tr[t]["src"] == "tlc"][:2] + [t for t in traces if by_tr[t]["src"] == "profile" and len(traces[t]) > 12][:2]:
            s = by_tr[tr]
            v.sample(dict(source=s["src"], quantity=s["q"], interval_units=s["i"], unit_ns=s["unit_ns"], cap=s["cap"], prod=s["prod"], cons=s["cons"],
                          events=[[r["ev"], r["x"], r["now"], r["inlen"], r["outlen"], r["closed"]] for r in traces[tr][:40]]))
        if drift:
            v.notes.append("%d trace(s) rejected by the strict trace specification (drift): the code behaves differently from Limit.tla" % len(drift))
        v.assumptions += ["timing is decided on the virtual clock of testing/synctest (exact sleeps are the worst case for C04: a real time.Sleep never returns early)",
                          "emission instants are observed by sampling len(Output()) after every single clock step (exact on a whole-unit schedule, "
                          "otherwise rounded up, which never makes the monitor stricter than the property)",
                          "TLC (32-bit integers): virtual time is expressed in model units, Quantity <= 100000"]
    return v.finish()


def replay(pid, path):
    """re-execute the schedule of a replay file on the current tree and judge it again"""
    with open(path) as f:
        r = json.load(f)["replay"]
    c = r["config"]
    v = Verdict(pid, "quick", "model_checking")
    with Scratch(pid.lower() + "r") as sc:
        stage_specs(sc)
        binary = os.path.join(sc, "limith.test")
        build_test("limith", binary, race=True)
        scs = finalize([dict(kind="sched", q=c["quantity"], i=c["interval_units"], cap=c["cap"], unit_ns=c["unit_ns"], n=r["schedule"].count("W"),
                             tokens=r["schedule"], src="replay")], random.Random(1))
        res = judge(pid, v, sc, binary, scs)
    for desc, p in v.violations:
        log("violation:", desc)
        print("VIOLATION property=%s replay=%s" % (pid, p))
    if not v.violations:
        print("replay of %s: the recorded schedule no longer violates %s (strict conformance drift: %d)" % (path, pid, len(res[6])))
    return 1 if v.violations else 0


def guarded(pid, tier):
    """runnable alone: an inconclusive run exits 2 (never 1) also without the ./check driver"""
    try:
        return run_limit(pid, tier)
    except Inconclusive as e:
        log("INCONCLUSIVE:", e)
        return 2


def check_C04(tier):
    return guarded("C04", tier)


def check_C12(tier):
    return guarded("C12", tier)
