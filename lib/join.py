"""join-engine: C03, C08, C09, C10, C11 and the join clause of C16.

Design check (U1)   TLC on the bounded configurations of Join.tla / Unite.tla (free, urgent, urgent+ready consumer, v1 with
                    Stop/Cancel, v1 liveness).  A failure there alone is never a verdict (Inconclusive).
Binding (B1)        harness/joinh drives the REAL v2 join, v2 unite and v1 join in lock-step inside testing/synctest bubbles
                    under -race, from schedules (a) walked out of the TLC state graph of a tiny configuration of the same
                    specification, (b) enumerated (unite length sequences), (c) seeded adaptive random (VERIF_SEED).
Trace validation    TLC validates the concatenated ndjson traces against Trace_Join / Trace_Unite (strict conformance: a
                    rejection is DRIFT) and against Mon_Join (monitors over observed facts only: a finding is a VIOLATION).
"""
import concurrent.futures as cf
import hashlib, json, os, random, re, shutil
from common import *

KIND_MODULE = dict(join="Trace_Join", v1="Trace_Join", unite="Trace_Unite")
MS, NS, V1UNIT = 1000000, 1, 10000000


def jvm(d, gb):
    """bounded heap (several TLC runs share the box with other checks) and a private java.io.tmpdir (TLC/SANY unpack their
    standard modules there and do not always clean up): nothing may be left under /tmp"""
    t = os.path.join(d, "jtmp")
    os.makedirs(t, exist_ok=True)
    return "-Xmx%dg -XX:MaxDirectMemorySize=%dg -Djava.io.tmpdir=%s" % (gb, gb, t)


# ------------------------------------------------------------------------------------------------ design checks
def design_checks(v, sc, jobs, per_job_workers=5, parallel=3, timeout=1500):
    """jobs: [(module, cfg, description)].  Returns list of failure descriptions (empty = all passed)."""
    def one(job):
        mod, cfg, _ = job
        d = os.path.join(sc, "mc-" + cfg.replace(".cfg", ""))
        os.makedirs(d, exist_ok=True)
        stage_specs(d)
        return tlc(d, mod, cfg=cfg, workers=per_job_workers, timeout=timeout, javaopts=jvm(d, 5))
    failures = []
    with cf.ThreadPoolExecutor(max_workers=parallel) as ex:
        futs = [(job, ex.submit(one, job)) for job in jobs]
        for job, fut in futs:
            res = fut.result()
            v.add_tlc(res, "%s/%s: %s" % job)
            if not res.ok:
                failures.append("%s/%s: %s" % (job[0], job[1], res.out[-1500:]))
            shutil.rmtree(os.path.join(sc, "mc-" + job[1].replace(".cfg", "")), ignore_errors=True)
    return failures


def big(tier, name):
    return name + ("_big" if tier == "thorough" else "") + ".cfg"


# ------------------------------------------------------------------------------------------------ schedules
def mk(kind, J, T, inacc, cap, nocopy, unit=None, ready=False, scribble=True, max_items=8, lens=None, steps=None, rnd=None, src="", slack=0, shared=False, boundary=False, plan=None):
    div = 100 // (inacc or 25)
    if T % div and not boundary:     # boundary: options the unchanged constructor refuses (interval below its minimum)
        raise ValueError("T must be a multiple of Div")
    return dict(kind=kind, J=J, T=T, inacc=inacc, Div=div, I=T // div if T else 0, cap=cap, nocopy=nocopy,
                unit_ns=unit or (V1UNIT if kind == "v1" else MS), ready=ready, scribble=scribble, maxItems=max_items,
                lens=lens or [0, 1, max(J - 1, 1), J, J + 1], steps=steps, rand=rnd, src=src, slack=slack, shared=shared or bool(plan),
                shared_lens=plan[0] if plan else [], shared_addr=plan[1] if plan else [])


TIMINGS = [(0, 0), (4, 50), (4, 25), (4, 100), (4, 0), (6, 34), (6, 30), (2, 50), (1, 100)]   # (T units, inaccuracy)


def random_schedules(rng, n, kinds, weights, ready=False, timings=None, nocopy=None, steps=40, scribble=True, caps=(0, 1, 2, 3),
                     sizes=(1, 2, 3, 4), max_items=9, src="random"):
    out = []
    for _ in range(n):
        kind = rng.choice(kinds)
        T, inacc = rng.choice(timings or TIMINGS)
        nc = rng.choice([False, True]) if nocopy is None else nocopy
        w = dict(weights)
        if kind != "v1":
            w["S"] = w["X"] = 0
        if not nc:
            w["L"] = 0
        unit = None
        if kind != "v1" and rng.random() < 0.15:
            unit = NS                                            # "a few ns" profile
        J = rng.choice(sizes)
        out.append(mk(kind, J, T, inacc, rng.choice(caps), nc, unit=unit, ready=ready, scribble=scribble,
                      max_items=max_items, rnd=dict(seed=rng.getrandbits(40), n=steps, w=w), src=src,
                      slack=rng.choice([0, 0, 1, J, 2 * J]) if kind == "unite" else 0,      # producers reuse batch buffers: cap > len
                      shared=kind == "unite" and rng.random() < 0.4))                        # or send views into one table, out of address order
    return out


def directed_schedules(prop):
    """hand-written schedule families for corners that random walks reach rarely (explicit steps; a step that is not enabled is skipped)"""
    out = []
    if prop in ("C09", "C03"):
        # a full slice whose write to the output BLOCKS for a while (consumer behind, output full), then fewer than JoinSize
        # elements and silence: the short slice may only be flushed Timeout after the blocked slice was really delivered
        for cap in (0, 1):
            for block in (1, 2, 3):
                for T, inacc in ((4, 25), (4, 50), (6, 34)):
                    fill = ["W", "W"] * (2 + cap) + ["W"] * cap
                    steps = fill + ["A"] * block + ["R"] * (3 + cap) + ["W"] + ["A"] * (2 * T + 2) + ["R", "W", "W", "A", "R", "C", "A", "R", "R"]
                    out.append(mk("join", 2, T, inacc, cap, False, steps=steps, src="directed:blocked-write-then-short"))
                    # v1: the output holds one slice, the second one blocks in the write
                    fill1 = ["W", "W"] * 2 + ["W"] * cap
                    steps1 = fill1 + ["A"] * block + ["R"] * 2 + ["W"] + ["A"] * (2 * T + 2) + ["R", "W", "W", "A", "R", "C", "A", "R", "R"]
                    out.append(mk("v1", 2, T, inacc, cap, False, steps=steps1, src="directed:blocked-write-then-short"))
    if prop in ("C09", "C03"):
        # unite: the next input slice does not fit (overflow without an exact fill), the accumulated slice is delivered, and then
        # the input goes quiet: the remainder may only be flushed Timeout after THAT delivery
        for J in (3, 4):
            for T, inacc in ((4, 25), (4, 50), (6, 34)):
                for lead in (1, 2, 3):
                    for nocopy in (False, True):
                        rl = ["R", "L"] if nocopy else ["R"]
                        steps = ["A"] * lead + ["W%d" % (J - 1), "W2"] + rl + ["A"] * (2 * T + 2) + rl + ["W1"] + ["A"] * (2 * T + 2) + rl + ["C", "A"] + rl + rl
                        out.append(mk("unite", J, T, inacc, 1, nocopy, steps=steps, src="directed:overflow-then-lull"))
    if prop in ("C10", "C09"):
        # the last pass came from a FULL join (passAt off the tick grid), one element is buffered, and another one arrives after
        # the accumulation period expired but before the next tick
        for T, inacc in ((4, 50), (6, 34), (6, 30), (4, 100)):
            div = 100 // inacc
            I = T // div
            for off in range(1, I + 1) if I > 1 else (0,):
                for late in range(0, I):
                    pre = ["A"] * off + ["W", "W", "W", "R"] + ["A", "W"]
                    wait = ["A"] * max(T - 1 + late, 0)
                    steps = pre + wait + ["W"] + (["A", "R"] * (2 * T + 2 * I + 2)) + ["C", "A", "R", "R"]
                    for nocopy in (False, True):
                        out.append(mk("join", 3, T, inacc, 0, nocopy, ready=True, steps=steps if not nocopy else [x for st in steps for x in ([st, "L"] if st == "R" else [st])],
                                      src="directed:arrival-between-expiry-and-tick"))
    if prop in ("C10",):
        # the acceptance boundary of the constructors: a Timeout whose ticker period Timeout/floor(100/inaccuracy) falls below what
        # the constructor accepts (v1: 10 ms, v2: 1 ns).  The unchanged constructors refuse these options (trace: Reset, Rejected);
        # a constructor that accepts them owes the bound of C10 like for any other options: one element, then silence
        for kind, unit, combos in (("v1", MS, ((45, 1), (41, 5), (91, 5), (125, 2), (99, 10))), ("join", NS, ((50, 1), (99, 1), (7, 10))), ("unite", NS, ((50, 1), (7, 10)))):
            for T, inacc in combos:
                for nocopy in (False, True):
                    w = "W1" if kind == "unite" else "W"
                    steps = [w] + ["A"] * (T + T // (100 // inacc) + 14) + [w] + ["A"] * (T + 14) + ["C", "A", "R", "R"]
                    out.append(mk(kind, 3, T, inacc, 0, nocopy, unit=unit, ready=True, steps=steps, src="directed:acceptance-boundary", boundary=True))
    if prop in ("C03", "C08", "C11"):
        # unite, the producer sends views into one table it filled beforehand, not in address order (a later view lies right behind
        # an earlier one); the consumer of the copy mode writes into what it got, spare capacity included
        for J, lens, addr in ((6, [2, 2, 2, 3, 3], [0, 2, 1, 3, 4]), (4, [1, 2, 1, 3, 1], [0, 2, 1, 4, 3]), (2, [3, 3, 1, 2, 2], [0, 1, 2, 3, 4]),
                              (3, [4, 1, 1, 4, 3], [3, 0, 2, 1, 4]), (5, [2, 2, 2, 2, 2, 2], [0, 2, 4, 1, 3, 5])):
            for T, inacc in ((0, 0), (4, 50)):
                for nocopy in (False, True):
                    for cap in (0, 3):
                        rl = ["R", "L"] if nocopy else ["R"]
                        steps = ["W"] * min(cap + 1, len(lens)) + rl + ["W", "W"] + rl + ["W", "W", "W"] + rl + ["A"] * (T + 2) + rl + ["C"] + rl * 4
                        out.append(mk("unite", J, T, inacc, cap, nocopy, steps=steps, src="directed:shared-table", plan=(lens, addr), max_items=len(lens)))
    if prop in ("C10",):
        # a producer whose writes land exactly at tick instants (buffered input, JoinSize never reached): whichever of the two
        # ready cases the discipline takes first, the accumulated elements are due Timeout*(1+1/Div) after they were accepted
        for kind in ("join", "v1", "unite"):
            for T, inacc in ((4, 25), (4, 50), (2, 50)):
                for cap in (1, 3):
                    for nocopy in (False, True):
                        for rep in range(6):
                            w = "P1" if kind == "unite" else "P"
                            steps = ["W1" if kind == "unite" else "W"] + [w, "A"] * (3 * T + 4) + ["A"] * (2 * T) + ["C", "A", "R", "R"]
                            out.append(mk(kind, 40, T, inacc, cap, nocopy, ready=True, steps=steps, max_items=60, src="directed:writes-at-tick-instants"))
    if prop in ("C11", "C03", "C09"):
        # reused batch buffers: empty and short slices with spare capacity >= JoinSize
        for J in (2, 3, 4):
            for T, inacc in ((0, 0), (4, 50)):
                for nocopy in (False, True):
                    steps = ["W2", "W0", "W1", "W0", "R", "L", "W2", "W2", "W0", "R", "L", "A", "A", "R", "L", "W%d" % J, "W0", "W1", "R", "L", "C", "R", "L", "R", "L", "R", "L"]
                    out.append(mk("unite", J, T, inacc, 2, nocopy, steps=steps, src="directed:spare-capacity", slack=2 * J))
    return out


EDGE_RE = re.compile(r'^(-?\d+) -> (-?\d+) \[label="([^"]*)"')
NODE_RE = re.compile(r'^(-?\d+) \[label="(.*)"(,style = filled)?\]')
TOKEN = dict(Write="W", CloseIn="C", ConsumerRecv="R", Released="L", Release="L", FwdReleased="L", Advance="A", Stop="S", Cancel="X")


def tlc_graph(sc, module, cfg, timeout=300):
    """dump the complete state graph of a tiny configuration; returns (inits {node: cfg-dict}, out-edges {node: [(dst, token|None)]})"""
    d = os.path.join(sc, "graph-" + cfg.replace(".cfg", ""))
    os.makedirs(d, exist_ok=True)
    stage_specs(d)
    res = tlc(d, module, cfg=cfg, workers=4, timeout=timeout, extra=["-dump", "dot,actionlabels", "g.dot"], javaopts=jvm(d, 3))
    if not res.ok:
        raise Inconclusive("state graph dump failed for %s\n%s" % (cfg, res.out[-2000:]))
    inits, out, labels = {}, {}, {}
    with open(os.path.join(d, "g.dot")) as f:
        for line in f:
            m = EDGE_RE.match(line)
            if m:
                src, dst, lab = m.groups()
                name = lab.split("(")[0]
                labels[name] = labels.get(name, 0) + 1
                tok = TOKEN.get(name)
                if name == "Write" and "(" in lab:
                    tok = "W" + lab[lab.index("(") + 1:-1]
                if src != dst:
                    out.setdefault(src, []).append((dst, tok))
                continue
            if "style = filled" in line:
                m = NODE_RE.match(line)
                if m:
                    c = re.search(r"cfg = \[([^\]]*)\]", m.group(2))
                    kv = dict(p.split(" |-> ") for p in c.group(1).split(", "))
                    inits[m.group(1)] = {k: (x == "TRUE") if x in ("TRUE", "FALSE") else int(x) for k, x in kv.items()}
    shutil.rmtree(d, ignore_errors=True)
    nedges = sum(len(x) for x in out.values())
    return res, inits, out, nedges, labels


def graph_walks(rng, inits, out, n, max_len=80):
    """transition cover of the dumped graph: for a not yet covered edge take the BFS-tree path from an initial state to
    its source, the edge itself, then a greedy walk over edges that are still uncovered.  At most n paths (edges in seeded
    random order), so the quick tier covers a sample and the thorough tier (almost) everything.
    Returns [(cfg, env-token list)], number of covered edges"""
    from collections import deque
    parent, root = {}, {}
    dq = deque()
    for i in sorted(inits):
        parent[i], root[i] = None, i
        dq.append(i)
    while dq:
        u = dq.popleft()
        for k, (dst, tok) in enumerate(out.get(u, ())):
            if dst not in parent:
                parent[dst], root[dst] = (u, k), root[u]
                dq.append(dst)
    edges = [(u, k) for u in out if u in parent for k in range(len(out[u]))]
    rng.shuffle(edges)
    covered, walks = set(), []
    for (u, k) in edges:
        if len(walks) >= n:
            break
        if (u, k) in covered:
            continue
        path, cur = [], u
        while parent[cur] is not None:
            path.append(parent[cur])
            cur = parent[cur][0]
        path = path[::-1] + [(u, k)]
        cur = out[u][k][0]
        while len(path) < max_len:
            fresh = [j for j in range(len(out.get(cur, ()))) if (cur, j) not in covered and (cur, j) not in path[-8:]]
            if not fresh:
                break
            j = rng.choice(fresh)
            path.append((cur, j))
            cur = out[cur][j][0]
        covered.update(path)
        walks.append((inits[root[u]], [out[x][j][1] for (x, j) in path if out[x][j][1]]))
    return walks, len(covered)


def tlc_schedules(v, sc, rng, what, n):
    """schedules walked out of the TLC graph of the tiny configuration `what` in {join, v1, unite}"""
    module, cfg = dict(join=("MC_Join", "MC_Join_tiny.cfg"), v1=("MC_Join", "MC_Join_v1tiny.cfg"), unite=("MC_Unite", "MC_Unite_tiny.cfg"))[what]
    res, inits, out, nedges, labels = tlc_graph(sc, module, cfg)
    v.add_tlc(res, "%s/%s: state graph for replay schedules" % (module, cfg))
    walks, ncov = graph_walks(rng, inits, out, n)
    scheds = []
    for c, toks in walks:
        inacc = {1: 100, 2: 50, 4: 25}[c["T"] // c["I"]] if c["T"] else 0
        scheds.append(mk(what, c["J"], c["T"], inacc, c["InCap"], c["NoCopy"], steps=toks, max_items=6, src="tlc:" + cfg))
    return scheds, dict(graph=cfg, states=res.distinct, edges=nedges, edges_walked=ncov, walks=len(walks), transitions_by_action=labels)


def unite_length_sequences(J, maxn, rng=None, sample=None):
    import itertools
    lens = sorted({0, 1, max(J - 1, 1), J, J + 1})
    seqs = [s for n in range(1, maxn + 1) for s in itertools.product(lens, repeat=n)]
    if sample and len(seqs) > sample:
        keep = [s for s in seqs if len(s) < maxn]
        rest = [s for s in seqs if len(s) == maxn]
        rng.shuffle(rest)
        seqs = keep + rest[:max(0, sample - len(keep))]
    return seqs


def unite_enumerated(rng, tier):
    """all sequences of input slice lengths over {0,1,J-1,J,J+1}: untimed (greedy reference) and timed with a pause in between"""
    out = []
    J = 3
    seqs = unite_length_sequences(J, 4, rng, sample=None if tier == "thorough" else 330)
    for s in seqs:
        nc = rng.choice([False, True])
        out.append(mk("unite", J, 0, 0, 2, nc, ready=True, steps=["W%d" % n for n in s], max_items=8, src="enum:lens"))
        if tier == "thorough" or rng.random() < 0.3:
            steps = []
            for n in s:
                steps += ["W%d" % n] + ["A"] * rng.choice([0, 0, 1, 2, 5])
            out.append(mk("unite", J, 4, rng.choice([25, 50, 100]), 1, not nc, ready=rng.random() < 0.7, steps=steps, max_items=8, src="enum:lens+pauses"))
    return out


# ------------------------------------------------------------------------------------------------ record
def record(binary, sc, scheds, timeout):
    """run the harness over the schedules; restarts after a controlled give-up (exit 3) or a crash of one schedule"""
    for i, s in enumerate(scheds, 1):
        s["id"] = i
    sp, tp = os.path.join(sc, "sched.ndjson"), os.path.join(sc, "trace.ndjson")
    with open(sp, "w") as f:
        for s in scheds:
            f.write(json.dumps(s) + "\n")
    if os.path.exists(tp):
        os.remove(tp)
    frm, notes, races, wall = 1, [], 0, 0.0
    for attempt in range(25):
        rc, out, w = run_test(binary, "TestRecord$", env=dict(SCHED=sp, OUT=tp, FROM=frm), timeout=timeout)
        wall += w
        races += races_in(out)
        if "DONE " in out:
            break
        begun = [int(x) for x in re.findall(r"^BEGIN (\d+)", out, re.M)]
        if not begun:
            raise Inconclusive("recorder did not start\n" + out[-3000:])
        notes.append("schedule %d: harness stopped (%s)" % (begun[-1], "gave up: discipline never terminated" if "GIVEUP" in out else "crash rc=%s: %s" % (rc, out[-400:].replace("\n", " | "))))
        frm = begun[-1] + 1
        if frm > len(scheds):
            break
    else:
        raise Inconclusive("recorder kept failing\n" + "\n".join(notes[-5:]))
    traces = {}
    with open(tp) as f:
        for line in f:
            line = line.strip()
            if not line:
                continue
            try:
                r = json.loads(line)
            except ValueError:
                continue                                        # torn last line of a crashed run
            traces.setdefault(r["tr"], []).append(r)
    traces = {k: t for k, t in traces.items() if t and t[0]["ev"] == "Reset"}
    if not traces:
        raise Inconclusive("no trace recorded")
    return traces, notes, races, wall


# ------------------------------------------------------------------------------------------------ validate
def write_log(path, traces, ids):
    n = 0
    with open(path, "w") as f:
        for i in ids:
            for r in traces[i]:
                f.write(json.dumps(r) + "\n")
                n += 1
    return n


def validate(v, sc, traces, timeout=1500):
    """returns (strict: {tr: (accepted, first_unmatched_event_index_in_trace)}, findings: [dict(prop,tr,idx,msg)])"""
    groups = {}
    for tr, t in traces.items():
        groups.setdefault(KIND_MODULE[t[0]["c"]["kind"]], []).append(tr)
    groups["Mon_Join"] = list(traces)
    jobs = []
    for mod, ids in sorted(groups.items()):
        ids = sorted(ids)
        events = sum(len(traces[i]) for i in ids)
        k = max(1, min(6, -(-events // 50000)))                  # independent traces: split long logs over parallel TLC runs
        size = -(-len(ids) // k)
        for c in range(k):
            part = ids[c * size:(c + 1) * size]
            if part:
                jobs.append((mod, part, c))

    def one(job):
        mod, ids, c = job
        d = os.path.join(sc, "tv-%s-%d" % (mod, c))
        os.makedirs(d, exist_ok=True)
        stage_specs(d)
        n = write_log(os.path.join(d, "trace.ndjson"), traces, ids)
        res = tlc(d, mod, cfg=mod + ".cfg", workers=1, timeout=timeout, javaopts=jvm(d, 2))
        outf = os.path.join(d, "mon_out.json" if mod == "Mon_Join" else "trace_out.json")
        if not res.ok or not os.path.exists(outf):
            if mod != "Mon_Join":
                return res, None                                # strict layer broke down: decided after the monitor's verdict
            raise Inconclusive("trace validation run %s failed (tool problem, not a verdict)\n%s" % (mod, res.out[-3000:]))
        with open(outf) as f:
            o = json.load(f)
        if o["events"] != n:
            raise Inconclusive("trace validation %s: log length mismatch" % mod)
        shutil.rmtree(d, ignore_errors=True)
        return res, o

    strict, findings, errors = {}, [], []
    with cf.ThreadPoolExecutor(max_workers=min(NCPU, 6)) as ex:
        futs = [(job, ex.submit(one, job)) for job in jobs]
        for (mod, ids, c), fut in futs:
            res, o = fut.result()
            if o is None:
                errors.append("%s: %s" % (mod, res.out[-1500:]))
                continue
            v.add_tlc(res, "%s: %d traces, %d events" % (mod, len(ids), o["events"]))
            if mod == "Mon_Join":
                findings += o["bad"]
            else:
                for t in (o["traces"].values() if isinstance(o["traces"], dict) else o["traces"]):
                    strict[t["tr"]] = (bool(t["accepted"]), t["hw"] - t["first"] + 2)
    return strict, findings, errors


# ------------------------------------------------------------------------------------------------ coverage rules
def label(r):
    e = r["ev"]
    if e == "Write":
        return "W%d" % r["n"]
    if e == "Recv":
        return "R%d" % r["n"]
    if e == "Release":
        return "L" + ("+" if r["ok"] else "-")
    return dict(Reset="", Close="C", RecvClosed="Rc", RecvNone="R0", Adv="A", Stop="S", Cancel="X", Deadline="D", Scribble="s", GiveUp="G").get(e, e)


def signature(t):
    c = t[0]["c"]
    return hashlib.sha1(json.dumps([c["kind"], c["J"], c["T"], c["Div"], c["cap"], c["nocopy"]] + [label(r) for r in t[1:]]).encode()).hexdigest()


def compact(t):
    c = t[0]["c"]
    return dict(cfg={k: c[k] for k in ("kind", "J", "T", "inacc", "Div", "cap", "nocopy", "ready", "src")},
                trace=" ".join("%s@%d" % (label(r) + ("%s" % r["elems"] if r["ev"] == "Recv" else ""), r["now"]) for r in t[1:])[:900])


def facts(t):
    """observed facts of a trace used by the non-triviality rules"""
    c = t[0]["c"]
    J, T = c["J"], c["T"]
    recvs = [(i, r) for i, r in enumerate(t) if r["ev"] == "Recv"]
    f = dict(kind=c["kind"], slices=len(recvs), closed=any(r["ev"] == "RecvClosed" for r in t), timed=T > 0)
    f["short_nonfinal"] = any(r["n"] < J for _, r in recvs[:-1])
    f["full"] = any(r["n"] >= J for _, r in recvs)
    # a slice that appeared in the output while only the clock moved (timeout flush)
    f["timeout_flush"] = any(t[i]["ev"] == "Adv" and t[i]["outlen"] > t[i - 1]["outlen"] for i in range(1, len(t)))
    f["output_full"] = any(r["outlen"] >= r["outcap"] for r in t)
    f["scribbled_then_more"] = any(r["ev"] == "Scribble" and any(q["ev"] == "Recv" for q in t[i + 1:]) for i, r in enumerate(t))
    # no-copy retention under pressure: between a delivery and its release the clock moved or the producer wrote
    ret = False
    for i, r in recvs:
        for q in t[i + 1:]:
            if q["ev"] == "Release" and q["ok"]:
                break
            if q["ev"] in ("Adv", "Write", "Stop", "Cancel"):
                ret = True
                break
    f["retained_under_pressure"] = c["nocopy"] and ret
    halts = [i for i, r in enumerate(t) if r["ev"] in ("Stop", "Cancel")]
    f["halted"] = bool(halts)
    if halts:
        h = halts[0]
        before = t[h - 1]
        written = sum(r["n"] for r in t[:h] if r["ev"] == "Write")
        delivered = sum(r["n"] for r in t[:h] if r["ev"] == "Recv")
        released = sum(1 for r in t[:h] if r["ev"] == "Release" and r["ok"])
        nrecv = sum(1 for r in t[:h] if r["ev"] == "Recv")
        f["halt_in_flight"] = written > delivered or before["outlen"] > 0 or (c["nocopy"] and nrecv > released)
        f["halt_unreleased"] = c["nocopy"] and nrecv > released
    writes = [r["n"] for r in t if r["ev"] == "Write"]
    f["mixed_lens"] = c["kind"] == "unite" and len(set(writes)) >= 2 and len(writes) >= 2
    f["oversize"] = c["kind"] == "unite" and any(n >= J for n in writes)
    f["multi"] = c["kind"] == "unite" and any(r["n"] > max(writes + [0]) for _, r in recvs) if writes else False
    return f


RULES = {
    "C03": ("trace ran to the closing of the output with at least 2 delivered slices and either a timeout flush, a full output "
            "buffer (slow consumer) or a v1 halt", lambda f: f["closed"] and f["slices"] >= 2 and (f["timeout_flush"] or f["output_full"] or f["halted"])),
    "C08": ("copy mode: the consumer overwrote a retained slice and at least one later slice was delivered; no-copy: between a "
            "delivery and its release the clock moved / the producer wrote / Stop-Cancel was injected",
            lambda f: f["scribbled_then_more"] or f["retained_under_pressure"]),
    "C09": ("untimed: at least 2 slices incl. a full one (greedy reference applies); timed: contains a short non-final slice",
            lambda f: (not f["timed"] and f["slices"] >= 2 and f["full"]) or (f["timed"] and f["short_nonfinal"])),
    "C10": ("Timeout > 0 and at least one slice appeared in the output while only the clock moved (timeout flush)",
            lambda f: f["timed"] and f["timeout_flush"]),
    "C11": ("unite trace with at least 2 different input slice lengths and an oversize slice or an output made of several input slices",
            lambda f: f["kind"] == "unite" and f["mixed_lens"] and (f["oversize"] or f["multi"])),
    "C16": ("v1 trace in which Stop/Cancel lands while something is in flight (accepted but undelivered elements, a slice in the "
            "output buffer or an unreleased no-copy slice)", lambda f: f["kind"] == "v1" and f.get("halt_in_flight", False)),
}


# ------------------------------------------------------------------------------------------------ the engine
def run_engine(v, tier, prop, design_jobs, make_schedules, level_note=""):
    """common body of the checks; adds everything to the Verdict v (owned by the caller)"""
    rng = random.Random(seed() * 7919 + sum(map(ord, prop)))
    with Scratch("join-" + prop.lower()) as sc:
        failures = design_checks(v, sc, design_jobs)
        binary = os.path.join(sc, "joinh.test")
        build_test("joinh", binary, race=True)
        scheds, extra = make_schedules(v, sc, rng)
        directed = directed_schedules(prop)
        scheds += directed
        extra["directed_schedules"] = len(directed)
        traces, notes, races, wall = record(binary, sc, scheds, timeout=900 if tier == "quick" else 3000)
        strict, findings, strict_errors = validate(v, sc, traces)
        mine = [b for b in findings if b["prop"] == prop]
        others = sorted({b["prop"] for b in findings if b["prop"] != prop})
        bad_traces = {}
        for b in mine:
            bad_traces.setdefault(b["tr"], b)
        for tr, b in sorted(bad_traces.items())[:5]:
            t = traces[tr]
            ev = b["idx"]
            v.violation("%s: %s (trace %d, %s)" % (prop, b["msg"], tr, json.dumps(compact(t)["cfg"])),
                        dict(kind="join-lockstep", property=prop, finding=b, seed=seed(), schedule=scheds[tr - 1], trace=t))
        refused = {tr for tr, t in traces.items() if any(r["ev"] == "Rejected" for r in t)}   # options the constructor refused: nothing ran
        refused |= {tr for tr, t in traces.items() if any(r.get("later") for r in t)}          # writes landing at a tick instant: monitor only
        drift = [tr for tr in traces if not strict.get(tr, (False, 0))[0] and tr not in refused]
        ok = [tr for tr in traces if tr not in bad_traces and tr not in drift and tr not in refused]
        extra["options_refused_by_constructor"] = len(refused)
        rule_text, rule = RULES[prop]
        sigs = {signature(t) for t in traces.values() if rule(facts(t))}
        v.cov["evaluations"] += len(traces)
        v.cov["distinct_nontrivial"] += len(sigs)
        v.cov["traces_validated_against_impl"] += len(ok)
        part = dict(traces=len(traces), events=sum(len(t) for t in traces.values()), drift=len(drift),
                    drift_samples=[dict(tr=tr, first_unmatched_event=strict.get(tr, (False, 0))[1], **compact(traces[tr])) for tr in drift[:3]],
                    monitor_findings=len(bad_traces), other_properties_with_findings=others, races_reported=races,
                    by_kind={k: sum(1 for t in traces.values() if t[0]["c"]["kind"] == k) for k in ("join", "unite", "v1")},
                    by_source={s: sum(1 for t in traces.values() if t[0]["c"]["src"].split(":")[0] == s) for s in ("tlc", "enum", "random")},
                    recorder_wall_s=round(wall, 1), harness_notes=notes[:5], **extra)
        v.cov.setdefault("join_engine", {})[prop] = part
        v.cov["drift"] = v.cov.get("drift", 0) + len(drift)
        nontriv = [t for t in traces.values() if rule(facts(t))]
        picked = []
        for t in (nontriv[:1] + [t for t in nontriv if t[0]["c"]["src"].startswith("enum")][:1]
                  + [t for t in nontriv if t[0]["c"]["src"].startswith("random")][:1] + nontriv[-1:]):
            if t[0]["tr"] not in picked:
                picked.append(t[0]["tr"])
                v.sample(compact(t))
        if not v.cov["samples"]:
            v.sample(compact(next(iter(traces.values()))))
        rt = "%s [join]: lock-step traces of the real v2 join / v2 unite / v1 join from TLC-graph walks, enumerated and seeded random " \
             "schedules; non-trivial = %s; distinct by hash(options, event-label sequence)" % (prop, rule_text)
        v.cov["rule"] = (v.cov["rule"] + " || " if v.cov["rule"] else "") + rt
        if strict_errors and not v.violations:
            raise Inconclusive("strict trace validation broke down (tool problem, not a verdict):\n" + "\n".join(strict_errors))
        if failures and not v.violations:
            raise Inconclusive("design check failed on the model alone (a lead, not a verdict):\n" + "\n".join(failures))
        if failures:
            v.notes.append("design check also failed: " + failures[0][:300])
    v.assumptions += [a for a in [
        "virtual clock of testing/synctest (go1.26.8): all timing facts are exact, real timers are not exercised",
        "lock-step: the environment acts only when every goroutine of the bubble is durably blocked; interleavings inside "
        "the discipline's critical sections are covered by the model (one action per channel operation), not by the traces",
        "TLC design checks are bounded (JoinSize <= 3, <= 5 elements / 4 slices, T <= 4 units)"] if a not in v.assumptions]


W_MIXED = dict(W=5, C=1, R=3, L=3, A=4, S=0, X=0)
W_SLOW = dict(W=6, C=1, R=1, L=1, A=5, S=0, X=0)
W_V1 = dict(W=5, C=1, R=2, L=2, A=3, S=1, X=1)
W_TRICKLE = dict(W=2, C=0, R=0, L=0, A=7, S=0, X=0)


def n_of(tier, q, t):
    return q if tier == "quick" else t


def check_C03(tier):
    v = Verdict("C03", tier, "model_checking")
    jobs = [("MC_Join", big(tier, "MC_Join_free"), "v2 join, free regime"), ("MC_Join", big(tier, "MC_Join_urgent"), "v2 join, urgent regime"),
            ("MC_Unite", big(tier, "MC_Unite_free"), "unite, free regime"), ("MC_Unite", big(tier, "MC_Unite_urgent"), "unite, urgent regime"),
            ("MC_Join", big(tier, "MC_Join_v1"), "v1 join with Stop/Cancel anywhere")]

    def scheds(v, sc, rng):
        out, extra = [], {}
        for what in ("join", "unite", "v1"):
            s, info = tlc_schedules(v, sc, rng, what, n_of(tier, 600, 20000))
            out += s
            extra["graph_" + what] = info
        out += random_schedules(rng, n_of(tier, 200, 8000), ["join", "unite", "v1"], W_MIXED)
        out += random_schedules(rng, n_of(tier, 150, 6000), ["join", "unite", "v1"], W_SLOW, src="random:slow-consumer")
        out += random_schedules(rng, n_of(tier, 60, 2000), ["v1"], W_V1, src="random:v1-halt")
        return out, extra
    run_engine(v, tier, "C03", jobs, scheds)
    v.cov["exhaustive"] = False
    return v.finish()


def check_C08(tier):
    v = Verdict("C08", tier, "model_checking")
    jobs = [("MC_Join", big(tier, "MC_Join_free"), "v2 join, free regime (ownership)"), ("MC_Unite", big(tier, "MC_Unite_free"), "unite, free regime (ownership)"),
            ("MC_Join", big(tier, "MC_Join_v1"), "v1 join: Stop/Cancel between delivery and release")]

    def scheds(v, sc, rng):
        out, extra = [], {}
        for what in ("join", "unite", "v1"):
            s, info = tlc_schedules(v, sc, rng, what, n_of(tier, 600, 20000))
            out += s
            extra["graph_" + what] = info
        retain = dict(W=6, C=1, R=3, L=1, A=4, S=0, X=0)
        out += random_schedules(rng, n_of(tier, 120, 2500), ["join", "unite", "v1"], retain, nocopy=True, src="random:retain-nocopy")
        out += random_schedules(rng, n_of(tier, 100, 2500), ["join", "unite", "v1"], W_MIXED, nocopy=False, src="random:scribble-copy")
        v1w = dict(W=6, C=0, R=3, L=1, A=3, S=1, X=1)
        out += random_schedules(rng, n_of(tier, 80, 1500), ["v1"], v1w, nocopy=True, src="random:v1-halt-before-release")
        return out, extra
    run_engine(v, tier, "C08", jobs, scheds)
    v.cov["exhaustive"] = False
    return v.finish()


def hold_C09(v, sc):
    """timing clause of C09 on the REAL clock in no-copy mode with a consumer that holds slices about a Timeout (harness/freeh/hold_test.go),
    under the timer-channel semantics of the harness module AND under GODEBUG=asynctimerchan=1 (what the repository's go.mod files select;
    testing/synctest refuses it, so virtual time cannot show it); judged by Mon_JoinHold.tla (seeded change C09-f)"""
    binary = os.path.join(sc, "freeh-hold.test")
    build_test("freeh", binary, race=False, tags="")
    cov = {}
    for label, godebug in (("default", ""), ("asynctimerchan=1", "asynctimerchan=1")):
        sub = os.path.join(sc, "hold-" + ("new" if not godebug else "old"))
        os.makedirs(sub, exist_ok=True)
        stage_specs(sub)
        rc, out, wall = run_test(binary, "TestRecordHold$", env=dict(OUT_DIR=sub, HOLD_RUNS=12 if v.tier == "quick" else 120, GODEBUG=godebug), timeout=1500)
        if rc != 0 or "HOLD runs=" not in out:
            raise Inconclusive("hold recorder died (%s)\n%s" % (label, out[-2000:]))
        recs = [json.loads(l) for l in open(os.path.join(sub, "hold.ndjson"))]
        res = tlc(sub, "Mon_JoinHold", cfg="Mon_JoinHold.cfg", workers=1, timeout=600)
        if res.crashed or not res.finished and not res.inv_violated or res.distinct < len(recs) + 1:
            raise Inconclusive("Mon_JoinHold did not consume the whole log (%d records, %d states)\n%s" % (len(recs), res.distinct, res.out[-2000:]))
        bad = []
        if res.inv_violated:
            sets = re.findall(r"/\\ viol = \{(.*)\}", res.out)
            bad = [(int(a), int(b)) for a, b in re.findall(r"<<(\d+), (\d+)>>", sets[-1])] if sets else []
            if not bad:
                raise Inconclusive("Mon_JoinHold rejects the log but the offending slices cannot be read\n" + res.out[-2000:])
        cfgs = {r["tr"]: r for r in recs if r["ev"] == "Reset"}
        for tr, k in bad[:3]:
            c = cfgs[tr]
            r = next(x for x in recs if x["ev"] == "S" and x["tr"] == tr and x["k"] == k)
            v.violation("C09: real clock, %s in no-copy mode (JoinSize %d, Timeout %d us, GODEBUG %s): slice %d has %d elements, is not the last one and was "
                        "received %d us after the release of the previous slice was signalled - earlier than Timeout (hold trace %d)"
                        % ({"join": "v2 join", "v1": "v1 join"}.get(c["kind"], c["kind"]), c["J"], c["T"], label, k, r["len"], r["dt"], tr), dict(kind="join-hold", godebug=godebug, trace=[x for x in recs if x["tr"] == tr]))
        short = sum(1 for r in recs if r["ev"] == "S" and r["k"] > 1 and not r["final"] and r["len"] < cfgs[r["tr"]]["J"])
        cov[label] = dict(traces=len(cfgs), slices=sum(1 for r in recs if r["ev"] == "S"), short_nonfinal_slices_judged=short, violations=len(bad), wall_s=round(wall, 1))
        if short == 0:
            raise Inconclusive("hold recorder produced no short non-final slice (vacuous)")
        if not bad:   # binding / vacuity guard: the same log with ONE judged slice made 1 us too early must be rejected for exactly that slice
            victim = next(r for r in recs if r["ev"] == "S" and r["k"] > 1 and not r["final"] and r["len"] < cfgs[r["tr"]]["J"])
            sub2 = os.path.join(sub, "corrupt")
            os.makedirs(sub2, exist_ok=True)
            stage_specs(sub2)
            with open(os.path.join(sub2, "hold.ndjson"), "w") as f:
                for r in recs:
                    f.write(json.dumps(dict(r, dt=cfgs[r["tr"]]["T"] - 1) if r is victim else r) + "\n")
            res2 = tlc(sub2, "Mon_JoinHold", cfg="Mon_JoinHold.cfg", workers=1, timeout=600)
            sets2 = re.findall(r"/\\ viol = \{(.*)\}", res2.out)
            got = [(int(a), int(b)) for a, b in re.findall(r"<<(\d+), (\d+)>>", sets2[-1])] if sets2 else []
            if not res2.inv_violated or got != [(victim["tr"], victim["k"])]:
                raise Inconclusive("Mon_JoinHold does not reject a log with one slice 1 us too early (vacuity guard)\n" + res2.out[-1500:])
            cov[label]["corruption_guard"] = "one judged slice made 1 us too early: rejected for exactly that slice"
    v.cov["real_clock_hold"] = cov


def check_C09(tier):
    v = Verdict("C09", tier, "model_checking")
    jobs = [("MC_Join", big(tier, "MC_Join_free"), "v2 join, free regime"), ("MC_Join", big(tier, "MC_Join_urgent"), "v2 join, urgent regime"),
            ("MC_Unite", big(tier, "MC_Unite_free"), "unite, free regime"), ("MC_Unite", big(tier, "MC_Unite_urgent"), "unite, urgent regime")]

    def scheds(v, sc, rng):
        out, extra = [], {}
        joinind_C10(v, sc)   # the timing clause of C09 is part of the same inductive invariant
        uniteind(v, sc)
        hold_C09(v, sc)
        for what in ("join", "unite"):
            s, info = tlc_schedules(v, sc, rng, what, n_of(tier, 600, 20000))
            out += s
            extra["graph_" + what] = info
        en = unite_enumerated(rng, tier)
        extra["unite_length_sequences"] = len(en)
        out += en
        out += random_schedules(rng, n_of(tier, 120, 3000), ["join", "unite", "v1"], W_MIXED, timings=[(0, 0)], src="random:untimed")
        out += random_schedules(rng, n_of(tier, 150, 3000), ["join", "unite", "v1"], dict(W=4, C=1, R=3, L=3, A=6, S=0, X=0),
                                timings=[t for t in TIMINGS if t[0]], src="random:timed")
        return out, extra
    run_engine(v, tier, "C09", jobs, scheds)
    v.cov["exhaustive"] = False
    return v.finish()


JOININD_TWINS = [
    ("JoinRst", "ELSE n' = n + 1 /\\ oldest' = (IF n = 0 THEN now ELSE oldest) /\\ passAt' = passAt",
     "ELSE n' = n + 1 /\\ oldest' = (IF n = 0 THEN now ELSE oldest) /\\ passAt' = (IF now - passAt >= tmo THEN now ELSE passAt)",
     "passAt reset by an arriving element once the timeout has expired (seeded change C10-a)"),
    ("JoinSkip", "  /\\ IF Timeouted THEN\n", "  /\\ IF Timeouted /\\ n = 0 THEN\n", "a timeouted tick ignored while something is pending (seeded change C10-d)"),
    ("JoinRearm", "  /\\ nextTick' = nextTick + per\n", "  /\\ nextTick' = (IF Timeouted THEN nextTick + tmo ELSE nextTick + per)\n",
     "ticker re-armed with the timeout after a timeouted tick (seeded change C10-b)"),
    ("JoinEarly", "Timeouted == now - passAt >= tmo ", "Timeouted == now - passAt >= tmo - per ",
     "elapsed time rounded up to the ticker period: a short slice leaves early (C09 timing clause, seeded change C09-e)"),
]


UNITEIND_TWINS = [
    ("UniteFit", "       ELSE IF m + n > js THEN\n", "       ELSE IF m + n >= js THEN\n", "fit test weakened to >=: a non-maximal slice leaves (seeded change C09-b)"),
    ("UniteFwd", "         LET rest == 0 IN ", "         LET rest == n IN ", "an oversized input slice forwarded without passing the accumulation first (seeded change C09-d)"),
    ("UniteOver", "         /\\ n' = (IF n + m >= js THEN 0 ELSE n + m)\n", "         /\\ n' = n + m\n", "the final len(join) >= JoinSize test dropped"),
]


def uniteind(v, sc):
    """size clauses of C03 / C09 / C11 for unite, for EVERY JoinSize and every sequence of input slice lengths: UniteInd.tla, Apalache"""
    apalache_inductive(v, sc, "UniteInd", UNITEIND_TWINS, "apalache_inductive_unite_sizes", stage_specs)
    v.notes.append("unite size clauses (no empty output, accumulated output <= JoinSize, maximal unless cut by the ticker or last, an input slice of >= JoinSize "
                   "elements leaves on its own after everything accumulated before it) proved inductive for every JoinSize and every sequence of "
                   "slice lengths on UniteInd.tla (Apalache); twins: " + "; ".join(t[3] for t in UNITEIND_TWINS) + " - each rejected")


def joinind_C10(v, sc):
    """C10 for EVERY Timeout, ticker period <= Timeout, JoinSize and arrival pattern (ready consumer, urgent regime): JoinInd.tla, Apalache"""
    apalache_inductive(v, sc, "JoinInd", JOININD_TWINS, "apalache_inductive_flush_bound", stage_specs)
    v.notes.append("C10 residence bound (now - oldest < Timeout + ticker period) and the C09 timing clause (a short slice leaves no earlier than Timeout after the previous delivery) proved inductive for every Timeout, period, JoinSize and arrival "
                   "pattern on the counter abstraction JoinInd.tla (Apalache); twins: " + "; ".join(t[3] for t in JOININD_TWINS) + " - each rejected")


def shared_C10(v, sc):
    """several disciplines fed from ONE input channel (fan-out; seeded change C10-e): lock-step in virtual time, judged by Mon_JoinShared.tla"""
    sub = os.path.join(sc, "shared")
    os.makedirs(sub, exist_ok=True)
    stage_specs(sub)
    binary = os.path.join(sc, "joinh.test")
    rc, out, wall = run_test(binary, "TestRecordShared$", env=dict(OUT_DIR=sub, SHARED_RUNS=24 if v.tier == "quick" else 600), timeout=900)
    m = re.search(r"SHARED runs=(\d+)", out)
    if not m or rc != 0:
        raise Inconclusive("shared-input recorder died\n" + out[-3000:])
    logf = os.path.join(sub, "shared.ndjson")
    recs = [json.loads(l) for l in open(logf)]
    res = tlc(sub, "Mon_JoinShared", cfg="Mon_JoinShared.cfg", workers=1, timeout=600)
    if res.crashed or not res.finished and not res.inv_violated or res.distinct < len(recs) + 1:
        raise Inconclusive("Mon_JoinShared did not consume the whole log (%d records, %d states)\n%s" % (len(recs), res.distinct, res.out[-2000:]))
    bad = []
    if res.inv_violated:
        sets = re.findall(r"/\\ viol = \{([^}]*)\}", res.out)
        bad = [int(x) for x in sets[-1].split(",") if x.strip()] if sets else []
        if not bad:
            raise Inconclusive("Mon_JoinShared rejects the log but the offending traces cannot be read\n" + res.out[-2000:])
    by_tr = {}
    for r in recs:
        by_tr.setdefault(r["tr"], []).append(r)
    for tr in bad[:3]:
        t = by_tr[tr]
        c = t[0]
        facts = {r["ev"]: (r["x"], r["now"]) for r in t if r["ev"] in ("Empty", "End")}
        v.violation("C10: %d %s disciplines fed from one input channel (Timeout %d units, divider %d): %d elements accepted by t=%d, only %d on the "
                    "outputs at t=%d, later than Timeout*(1+1/divider) with every consumer ready (shared-input trace %d)"
                    % (c["n"], c["kind"], c["T"], c["Div"], facts["Empty"][0], facts["Empty"][1], facts["End"][0], facts["End"][1], tr),
                    dict(kind="join-shared", trace=t))
    judged = sum(1 for t in by_tr.values() if any(r["ev"] == "End" for r in t))
    # binding / vacuity guard: the same log with ONE delivered count lowered by one must be rejected, for exactly that trace
    if not bad:
        victim = next((r for r in recs if r["ev"] == "End" and r["x"] > 0), None)
        if victim is None:
            raise Inconclusive("shared-input recorder produced no judged trace")
        sub2 = os.path.join(sub, "corrupt")
        os.makedirs(sub2, exist_ok=True)
        stage_specs(sub2)
        with open(os.path.join(sub2, "shared.ndjson"), "w") as f:
            for r in recs:
                f.write(json.dumps(dict(r, x=r["x"] - 1) if r is victim else r) + "\n")
        res2 = tlc(sub2, "Mon_JoinShared", cfg="Mon_JoinShared.cfg", workers=1, timeout=600)
        sets2 = re.findall(r"/\\ viol = \{([^}]*)\}", res2.out)
        got = [int(x) for x in sets2[-1].split(",") if x.strip()] if sets2 else []
        if not res2.inv_violated or got != [victim["tr"]]:
            raise Inconclusive("Mon_JoinShared does not reject a log with one lost element (vacuity guard)\n" + res2.out[-1500:])
    v.cov["shared_input"] = dict(traces=len(by_tr), judged=judged, rejected_by_constructor=sum(1 for t in by_tr.values() if any(r["ev"] == "Rejected" for r in t)),
                                 stuck=sum(1 for t in by_tr.values() if any(r["ev"] == "Stuck" for r in t)), elements=sum(r["x"] for r in recs if r["ev"] == "Empty"),
                                 monitor_states=res.distinct, violations=len(bad), wall_s=round(wall, 1),
                                 corruption_guard="one delivered count lowered by one: rejected for exactly that trace" if not bad else "skipped (violations found)")


def check_C10(tier):
    v = Verdict("C10", tier, "model_checking")
    jobs = [("MC_Join", big(tier, "MC_Join_ready"), "v2 join, urgent regime with ready consumer"),
            ("MC_Unite", big(tier, "MC_Unite_ready"), "unite, urgent regime with ready consumer")]

    def scheds(v, sc, rng):
        out, extra = [], {}
        joinind_C10(v, sc)
        shared_C10(v, sc)
        for what in ("join", "unite"):
            s, info = tlc_schedules(v, sc, rng, what, n_of(tier, 400, 20000))
            for x in s:
                x["ready"] = True
            out += s
            extra["graph_" + what] = info
        timed = [t for t in TIMINGS if t[0]]
        out += random_schedules(rng, n_of(tier, 120, 2500), ["join", "unite", "v1"], W_TRICKLE, ready=True, timings=timed, steps=60, src="random:trickle")
        out += random_schedules(rng, n_of(tier, 80, 1500), ["join", "unite", "v1"], dict(W=5, C=0, R=0, L=0, A=5, S=0, X=0), ready=True, timings=timed,
                                steps=50, src="random:bursts")
        # inaccuracy 1 % (Div 100): T = 100 units, ticker period 1 unit; single element then silence, and a slow trickle
        for k in range(n_of(tier, 4, 40)):
            kind = ["join", "unite", "v1"][k % 3]
            steps = ["W"] + ["A"] * rng.choice([30, 60, 99]) + ["W"] + ["A"] * 110 + ["W", "W"] + ["A"] * 105
            out.append(mk(kind, 3, 100, 1, 1, bool(k & 1), ready=True, steps=[("W1" if kind == "unite" and s == "W" else s) for s in steps], src="enum:div100"))
        # mixed (not always ready) consumers: the monitor decides which elements are exempt
        out += random_schedules(rng, n_of(tier, 60, 1500), ["join", "unite", "v1"], W_MIXED, timings=timed, src="random:mixed-consumer")
        return out, extra
    run_engine(v, tier, "C10", jobs, scheds)
    v.cov["exhaustive"] = False
    return v.finish()


def check_C11(tier):
    v = Verdict("C11", tier, "model_checking")
    jobs = [("MC_Unite", big(tier, "MC_Unite_free"), "unite, free regime"), ("MC_Unite", big(tier, "MC_Unite_urgent"), "unite, urgent regime")]

    def scheds(v, sc, rng):
        out, extra = [], {}
        uniteind(v, sc)
        s, info = tlc_schedules(v, sc, rng, "unite", n_of(tier, 800, 40000))
        out += s
        extra["graph_unite"] = info
        en = unite_enumerated(rng, tier)
        extra["unite_length_sequences"] = len(en)
        out += en
        out += random_schedules(rng, n_of(tier, 150, 3000), ["unite"], W_MIXED, src="random")
        out += random_schedules(rng, n_of(tier, 80, 2000), ["unite"], dict(W=4, C=1, R=3, L=3, A=6, S=0, X=0), timings=[t for t in TIMINGS if t[0]], src="random:timeouts-between")
        return out, extra
    run_engine(v, tier, "C11", jobs, scheds)
    v.cov["exhaustive"] = False
    v.cov["exhaustive_part"] = "all sequences of unite input slice lengths over {0,1,J-1,J,J+1}, J=3, up to %s slices" % ("4" if tier == "thorough" else "3 (+ a sample of length 4)")
    return v.finish()


def check_C16_join(tier, verdict):
    """join clause of C16 (v1 join): Stop returns / cancellation takes effect, output closed, delivered is an in-order
    duplicate-free subsequence of written.  Adds into the caller's Verdict; returns nothing."""
    jobs = [("MC_Join", big(tier, "MC_Join_v1"), "v1 join: Stop/Cancel enabled in every state (safety)"),
            ("MC_Join", big(tier, "MC_Join_v1live"), "v1 join: Halt ~> Exited without environment fairness")]

    def scheds(v, sc, rng):
        out, extra = [], {}
        s, info = tlc_schedules(v, sc, rng, "v1", n_of(tier, 800, 20000))
        out += s
        extra["graph_v1"] = info
        out += random_schedules(rng, n_of(tier, 150, 3000), ["v1"], dict(W=6, C=0, R=2, L=1, A=3, S=2, X=1), src="random:v1-halt")
        out += random_schedules(rng, n_of(tier, 60, 1000), ["v1"], dict(W=6, C=0, R=0, L=0, A=2, S=2, X=1), src="random:v1-halt-consumer-absent")
        return out, extra
    run_engine(verdict, tier, "C16", jobs, scheds)
