"""priority-engine (v2 part): PrioV2.tla model checked by TLC in bounded configurations generated from the
REAL divider table of the tree under test; transition-cover paths of the dumped state graph replayed into
the real scheduler (gated at the verif hooks, synctest bubble, -race) with the abstract state compared after
every step (spec -> code); adversarial continuations; observation traces decided by the TLA+ monitor
Mon_Prio.tla (verdict).  Divergence from the model is drift, never a violation."""
import json, os, random, re, shutil, hashlib
from common import *
import prio_model as pm
from pure import parse_violations

INV_ALL = ["TypeOK", "C01_Capacity", "C01_Round", "C01_Conservation", "C01_AbsInd", "C02_Order", "C07_Closed", "C15_FailSafe",
           "C15_ClosedAfterRelease", "C06_NoIdleBlock", "C05_Share", "C05_Full"]


def mk(name, prios, H, div, cap, items, sat=False, faults=0, unbuf=()):
    c = dict(name=name, prios=prios, H=H, div=div, incap={str(p): cap for p in prios}, items={str(p): items for p in prios},
             saturated=sat, faults=faults)
    for p in unbuf:
        c["incap"][str(p)] = 0
    return c


def model_and_paths(v, sc, binary, cfg, limit, rnd, invariants=INV_ALL, workers=14):
    """TLC: check the invariants on the bounded config and dump the graph; python: transition cover"""
    sub = os.path.join(sc, cfg["name"])
    os.makedirs(sub, exist_ok=True)
    stage_specs(sub)
    cfgp, rows = pm.div_table(binary, cfg, sub)
    name = pm.write_mc(sub, cfg, rows, invariants=invariants)
    dot = os.path.join(sub, "g.dot")
    r = tlc(sub, name, cfg=name + ".cfg", workers=workers, timeout=1500, extra=["-dump", "dot,actionlabels", dot])
    if not r.ok:
        if r.inv_violated:
            # a design-level counterexample is a lead, not a verdict about the code (it would have to be replayed)
            raise Inconclusive("model %s violates %s - specification needs attention\n%s" % (name, r.inv_violated, r.out[-2500:]))
        raise Inconclusive("TLC failed on %s\n%s" % (name, r.out[-2500:]))
    v.add_tlc(r, "%s: %s" % (name, json.dumps({k: cfg[k] for k in ("prios", "H", "div", "incap", "items", "saturated", "faults")})))
    paths = os.path.join(sub, "paths.ndjson")
    st = pm.cover_paths(dot, paths, pm.project_v2, cfg["prios"], limit=limit, rnd=rnd)
    os.remove(dot)
    return sub, cfgp, paths, st


def replay(binary, sub, cfgp, paths, cont, timeout=1500):
    rc, out, wall = run_test(binary, "TestReplayV2$", env=dict(CFG=cfgp, OUT_DIR=sub, PATHS=paths, CONT=cont), timeout=timeout)
    m = re.search(r"REPLAYED paths=(\d+) steps=(\d+) diverged=(\d+)", out)
    if not m:
        # the harness itself died (panic in the code under test is a finding of its own: report what we have)
        raise Inconclusive("replay driver died\n" + out[-3000:])
    return dict(paths=int(m.group(1)), steps=int(m.group(2)), diverged=int(m.group(3)), races=races_in(out), out=out, wall=wall)


def run_monitor(sc, event_files, v, module="Mon_Prio"):
    mon = os.path.join(sc, "mon")
    os.makedirs(mon, exist_ok=True)
    stage_specs(mon)
    n_lines = 0
    with open(os.path.join(mon, "events.ndjson"), "w") as out:
        for f in event_files:
            with open(f) as fh:
                for line in fh:
                    if not line.endswith("\n"):
                        break  # a recorder that died mid-write leaves a partial last line: the complete records are still judged
                    try:
                        json.loads(line)
                    except ValueError:
                        break
                    out.write(line)
                    n_lines += 1
    r = tlc(mon, module, cfg=module + ".cfg", workers=8, timeout=1500 if v.tier == "quick" else 4000, extra=["-continue"])
    tool_errors = [l for l in r.out.splitlines() if l.startswith("Error:") and "Invariant" not in l and "behavior up to this point" not in l]
    # every record yields one state
    if not r.finished or r.distinct == 0 or tool_errors or (r.crashed and not r.inv_violated) or r.distinct < n_lines:
        raise Inconclusive("monitor TLC failed (%d records, %d states, %s)\n%s" % (n_lines, r.distinct, tool_errors[:2], r.out[-3000:]))
    v.add_tlc(r, module + " (observation monitor over recorded real traces)")
    # TLC reports only the first violated invariant of a state: take the property ids from the `viol` set of the reported state
    viol = {}
    for block in r.out.split("Error: Invariant ")[1:]:
        m0 = re.findall(r"/\\ t0 = (\d+)", block)
        mv = re.findall(r"/\\ viol = \{([^}]*)\}", block)
        if not m0 or not mv:
            continue
        for pid_ in re.findall(r'"(\w+)"', mv[-1]):
            viol.setdefault(pid_, set()).add(int(m0[-1]))
    events = read_ndjson(os.path.join(mon, "events.ndjson"))
    return viol, events


def known_for(pid, tr):
    """a rejected trace that matches a KNOWN_FINDINGS.json entry (by the specific scenario it records) is a known finding"""
    for k in known_findings().get("known", []):
        if k["property"] != pid or k.get("kind") != "trace":
            continue
        w = k["where"]
        if "v1" in w and bool(tr[0].get("v1")) != bool(w["v1"]):
            continue
        if any(e["e"] == w["event"] and e.get("note") == w["note"] for e in tr):
            return k
    return None


def trace_at(events, t0):
    out = [events[t0 - 1]]
    j = t0
    while j < len(events) and events[j]["e"] != "Reset":
        out.append(events[j])
        j += 1
    return out


def path_line(paths, n):
    with open(paths) as f:
        for k, line in enumerate(f, 1):
            if k == n:
                return json.loads(line)
    return None


def stats_of(events):
    """per-trace facts used for the non-triviality counts"""
    traces, cur = [], None
    for e in events:
        if e["e"] == "Reset":
            cur = dict(reset=e, n=0, R=0, Q=None, OC=False, sig=hashlib.sha1(), kinds=set())
            traces.append(cur)
            continue
        cur["n"] += 1
        cur["kinds"].add(e["e"])
        cur["sig"].update(("%s%s%s%s|" % (e["e"], e.get("p"), e.get("c"), e.get("k"))).encode())
        if e["e"] == "R":
            cur["R"] += 1
        elif e["e"] == "Q":
            cur["Q"] = sum(x[1] for x in e["held"])
        elif e["e"] == "OC":
            cur["OC"] = True
        elif e["e"] == "QA":
            cur["QA"] = e["held"]
    return traces


def design_only(v, sc, binary, tier):
    """thorough tier: larger configurations are model-checked only (their state graphs are too big to dump and replay)"""
    if tier != "thorough":
        return
    for cfg in (mk("p3fairbig", [3, 2, 1], 4, "fair", 1, 2), mk("p3ratebig", [3, 2, 1], 6, "rate", 1, 2), mk("p2ratebig", [2, 1], 3, "rate", 2, 4, unbuf=())):
        sub = os.path.join(sc, "design-" + cfg["name"])
        os.makedirs(sub, exist_ok=True)
        stage_specs(sub)
        cfgp, rows = pm.div_table(binary, cfg, sub)
        name = pm.write_mc(sub, cfg, rows, invariants=INV_ALL)
        r = tlc(sub, name, cfg=name + ".cfg", workers=14, timeout=2400)
        if not r.ok:
            raise Inconclusive("TLC: design-only configuration %s fails or did not finish\n%s" % (name, r.out[-2000:]))
        v.add_tlc(r, "%s (design check only): %s" % (name, json.dumps({k: cfg[k] for k in ("prios", "H", "div", "incap", "items")})))
        shutil.rmtree(sub, ignore_errors=True)


def v2_property(pid, tier, cfgs, cont, nontrivial, rule, level="model_checking", quick_limit=600, thorough_limit=20000, extra=None, free=False, v1kinds=(), v1models=None, simple=False, v2rand=False):
    v = Verdict(pid, tier, level)
    rnd = random.Random(seed())
    import time as _t
    T0 = _t.time()
    def lap(what):
        log("[%s] t+%.0fs %s" % (pid, _t.time() - T0, what))
    with Scratch(pid.lower()) as sc:
        binary = os.path.join(sc, "prioh.test")
        build_test("prioh", binary)
        lap("built")
        if pid in ("C01", "C02", "C07"):
            v.attempt("design-only configurations", design_only, v, sc, binary, tier)
        files, jobs = [], []
        tot = dict(paths=0, steps=0, diverged=0, races=0)
        drift_samples = []
        for cfg in cfgs:
            limit = quick_limit if tier == "quick" else thorough_limit
            sub, cfgp, paths, st = model_and_paths(v, sc, binary, cfg, limit, rnd)
            log("[%s] %s: model %d states, %d/%d cover paths" % (pid, cfg["name"], st["nodes"], st["paths"], st["paths_total"]))
            rp = v.attempt("replay " + cfg["name"], replay, binary, sub, cfgp, paths, cont)
            if rp is None:   # the replay driver died (e.g. a panic inside the code under test): judge what it had recorded so far
                ef = os.path.join(sub, "replay_events.ndjson")
                if os.path.exists(ef) and os.path.getsize(ef):
                    files.append(ef)
                continue
            log("[%s] %s: replayed %d paths, %d steps, %d diverged, %.1fs" % (pid, cfg["name"], rp["paths"], rp["steps"], rp["diverged"], rp["wall"]))
            for k in tot:
                tot[k] += rp[k]
            files.append(os.path.join(sub, "replay_events.ndjson"))
            jobs.append((cfg, sub, paths, st, rp))
            if rp["diverged"]:
                for r in read_ndjson(os.path.join(sub, "replay_results.ndjson")):
                    if r["diverged"] and len(drift_samples) < 5:
                        drift_samples.append(dict(cfg=cfg["name"], **r))
            if rp["races"]:
                v.notes.append("race detector reported %d race(s) during replay of %s (verdict of C20)" % (rp["races"], cfg["name"]))
        free_stats = None
        fr = v.attempt("free-running v2", free_v2, sc, binary, tier) if free else None
        if fr:
            fsub, free_stats = fr
            files.append(os.path.join(fsub, "free_events.ndjson"))
            if free_stats["races"]:
                v.notes.append("race detector reported %d race(s) in free-running runs (verdict of C20)" % free_stats["races"])
        if pid == "C05":   # real clock, real goroutines: small buffers with hundreds of writers parked on them before New
            fs = v.attempt("free-running saturated v2", free_v2_sat, sc, binary, tier)
            if fs:
                files.append(fs[0])
                v.cov["free_running_saturated"] = fs[1]
        if v2rand:
            for c2 in v2rand_configs(tier):
                if (c2.get("faults", 0) > 0) != (pid == "C15"):
                    continue
                rec = v.attempt("v2 random " + c2["name"], record_v2rand, v, sc, binary, c2, 60 if tier == "quick" else 1500)
                if rec is None:
                    continue
                log("[%s] v2 random %s: %d scheduler events, trace validation drift %d" % (pid, c2["name"], rec["sched_events"], rec["conf"]["drift"]))
                files.append(rec["obs"])
                v.cov.setdefault("conformance", {})[c2["name"]] = rec["conf"]
        lap("v2 replays done")
        v1recs = []
        if v1models:
            v1models(v, sc, binary)
            lap("v1 models done")
        for kind in v1kinds:
            for c1 in v1_configs(kind, tier):
                rec = v.attempt("v1 " + c1["name"], record_v1, binary, sc, c1, 150 if tier == "quick" else 3000)
                if rec is None:
                    continue
                log("[%s] v1 %s: recorded, %d scheduler events, %.1fs" % (pid, c1["name"], rec["sched_events"], rec["wall"]))
                v1recs.append((c1, rec))
                files.append(rec["obs"])
                conf = v.attempt("trace validation " + c1["name"], conformance_v1, v, sc, binary, c1, rec) if rec["spin"] is None else None
                if conf:
                    log("[%s] %s: trace validation: %d traces, %d drift" % (pid, c1["name"], conf["traces"], conf["drift"]))
                    v.cov.setdefault("conformance", {})[c1["name"]] = conf
                if rec["spin"]:
                    v.notes.append("spin detected in %s (verdict of C16)" % c1["name"])
        lap("v1 records done")
        if simple:
            for c2 in simple_configs(tier, pid):
                rec = v.attempt("simple " + c2["name"], record_simple, binary, sc, c2, 120 if tier == "quick" else 3000)
                if rec is None:
                    continue
                log("[%s] simple %s: recorded, %.1fs" % (pid, c2["name"], rec["wall"]))
                files.append(rec["obs"])
                if True:
                    conf = v.attempt("trace validation " + c2["name"], conformance_simple, v, sc, c2, rec, 60 if tier == "quick" else 300)
                    if conf:
                        log("[%s] %s: trace validation against SimpleV%d: %s" % (pid, c2["name"], c2["ver"], conf))
                        v.cov.setdefault("conformance", {})[c2["name"]] = conf
        lap("monitor ...")
        viol, events = run_monitor(sc, files, v)
        lap("monitor done")
        log("[%s] monitor done: %s" % (pid, {k: len(x) for k, x in viol.items()}))
        traces = stats_of(events)
        # map monitor violations of THIS property to replays
        bad_t0 = sorted(viol.get(pid, set()))
        offsets, off = [], 0
        for (cfg, sub, paths, st, rp) in jobs:
            n = sum(1 for _ in open(os.path.join(sub, "replay_events.ndjson")))
            offsets.append((off, off + n, cfg, paths))
            off += n
        reported = 0
        for t0 in bad_t0:
            tr = trace_at(events, t0)
            k = known_for(pid, tr)
            if k:
                line = "%s (listed finding %s)" % (k["text"][:200], k["id"])
                if line not in v.known_hit:
                    v.known_hit.append(line)
                continue
            if reported >= 5:
                continue
            reported += 1
            hit = [(c, p) for (a, b, c, p) in offsets if a < t0 <= b]
            if tr[0].get("cont") == "v2rand":
                v.violation("%s: monitor Mon_Prio rejects a gated random run of the real v2 code (config %s, run %d, seed %s): %s" % (
                    pid, (tr[0].get("cfg") or {}).get("name"), tr[0]["path"], tr[0].get("seed"), summarize(pid, tr)),
                    dict(kind="prio-v2-rand", cfg=tr[0].get("cfg"), run=tr[0]["path"], seed=tr[0].get("seed"), steps=tr[0].get("steps"), observed=tr[:500]))
                continue
            if tr[0].get("cont") == "simple":
                v.violation("%s: monitor Mon_Prio rejects a trace recorded from the real simplified discipline (config %s, run %d, seed %s): %s" % (
                    pid, tr[0].get("cfg"), tr[0]["path"], tr[0].get("seed"), summarize(pid, tr)),
                    dict(kind="prio-simple-run", cfg=tr[0].get("cfg"), run=tr[0]["path"], seed=tr[0].get("seed"), steps=tr[0].get("steps"), observed=tr[:500]))
                continue
            if tr[0].get("cont") == "v1":
                v.violation("%s: monitor Mon_Prio rejects a trace recorded from the real v1 code (config %s, run %d, seed %s): %s" % (
                    pid, tr[0].get("cfg"), tr[0]["path"], tr[0].get("seed"), summarize(pid, tr)),
                    dict(kind="prio-v1-run", cfg=tr[0].get("cfg"), run=tr[0]["path"], seed=tr[0].get("seed"), steps=tr[0].get("steps"), observed=tr[:500]))
                continue
            if not hit:  # a free-running trace
                v.violation("%s: monitor Mon_Prio rejects a free-running trace of the real code (run %d, %s): %s" % (
                    pid, tr[0]["path"], json.dumps(tr[0].get("cfg")), summarize(pid, tr)),
                    dict(kind="prio-v2-free", seed=seed(), run=tr[0]["path"], cfg=tr[0].get("cfg"), observed=tr[:400]))
                continue
            cfg, paths = hit[0]
            v.violation("%s: monitor Mon_Prio rejects a trace recorded from the real code (config %s, path %d): %s" % (
                pid, cfg["name"], tr[0]["path"], summarize(pid, tr)),
                dict(kind="prio-v2-replay", cfg=cfg, cont=cont, path=path_line(paths, tr[0]["path"]), observed=tr))
        nt = [t for t in traces if nontrivial(t)]
        accepted = len(traces) - len({t0 for s in viol.values() for t0 in s})
        v.cov.update(evaluations=len(traces), distinct_nontrivial=len({t["sig"].hexdigest() for t in nt}),
                     traces_validated_against_impl=max(0, accepted - tot["diverged"]),
                     rule=rule, exhaustive=(tier == "thorough"),
                     replayed_paths=tot["paths"], replayed_steps=tot["steps"], drift=tot["diverged"], drift_samples=drift_samples,
                     other_properties_flagged={k: len(s) for k, s in viol.items() if k != pid},
                     graphs=[dict(cfg=c["name"], **st) for (c, _, _, st, _) in jobs],
                     free_running={k: free_stats[k] for k in ("runs", "events", "calls")} if free_stats else None,
                     v1_recorded={c1["name"]: r1["sched_events"] for c1, r1 in v1recs})
        for (cfg, sub, paths, st, rp) in jobs[:2]:
            p = path_line(paths, 1)
            v.sample(dict(cfg=cfg["name"], model_path=[("%s(%d)" % (s["a"], s["arg"]) if s["arg"] else s["a"]) for s in p][:60]))
        if traces:
            v.sample(dict(observed_trace=[(e["e"], e.get("p"), e.get("c"), e.get("k")) for e in trace_at(events, 1)][:50]))
        if extra:
            v.attempt("extra part", extra, v, sc, binary)
        v.assumptions += ["Go 1.26.8 testing/synctest virtual clock and quiescence detection", "TLC", "the verif hooks report the scheduler's counters faithfully",
                          "bounded configurations; larger ones only by the randomized parts"]
    return v.finish()


def summarize(pid, tr):
    last = [e for e in tr if e["e"] in ("Q", "QA", "A", "Starved", "Deadline", "Leak", "NoErr", "SentAfterBad", "EV", "StopHang", "CancelHang", "GraceHang", "OutGrew", "HandleAfterStop",
                                        "AddRet", "RmvRet", "StopRet", "GraceRet", "OC", "EC")]
    if not last:
        last = [e for e in tr if e["e"] in ("R", "L")]
    return "; ".join(("%s %s" % (e["e"], e.get("held") or e.get("note") or (("p=%s" % e["p"]) if e.get("p") else ""))).strip() for e in last[-4:]) + " (%d events)" % len(tr)


# ------------------------------------------------------------------------------------------------ properties
def cfgs_basic(tier):
    c = [mk("p2rate", [2, 1], 3, "rate", 2, 2), mk("p3fair", [3, 2, 1], 3, "fair", 1, 1), mk("p2rev", [2, 1], 3, "rev", 2, 1)]
    if tier == "thorough":
        c = [mk("p2rate", [2, 1], 3, "rate", 2, 3), mk("p3fair", [3, 2, 1], 4, "fair", 1, 1), mk("p2rev", [2, 1], 3, "rev", 2, 2),
             mk("p3rate", [3, 2, 1], 6, "rate", 1, 1), mk("p2fairlow", [2, 1], 3, "fairlow", 2, 2), mk("p2skew", [10, 1], 11, "rate", 1, 1)]
    return c


def models_v1_basic(v, sc, binary):
    if v.tier == "thorough":
        v1_model(v, sc, binary, mk1("v1dynm", [3, 2, 1], {2: 1, 1: 2}, 3, "fair", 3, 1, 1, graceful=True, adds=[[3, 3]], rmvs=[1]))
        v1_model(v, sc, binary, mk1("v1gracem", [2, 1], {2: 1, 1: 2}, 3, "rate", 2, 1, 2, graceful=True, stop=True))
    else:  # the larger v1 models run in the quick tiers of C16 / C17
        v1_model(v, sc, binary, mk1("v1dyns", [2, 1], {2: 1}, 2, "fair", 2, 1, 1, graceful=True, adds=[[2, 1]], rmvs=[2]))
        v1_model(v, sc, binary, mk1("v1graces", [2, 1], {2: 1, 1: 2}, 2, "rate", 2, 1, 1, graceful=True, stop=True))


def capind_C01(v, sc, binary):
    """U5: the capacity accounting as a counter abstraction with SYMBOLIC H and any divider result safeDivide accepts (CapInd.tla):
    Apalache discharges Init => IndInv, IndInv /\\ Next => IndInv', IndInv => Capacity; vacuity twin (Send without tactic-1) must fail"""
    sub = os.path.join(sc, "capind")
    os.makedirs(sub, exist_ok=True)
    stage_specs(sub)
    src = open(os.path.join(sub, "CapInd.tla")).read()
    bad = src.replace("MODULE CapInd", "MODULE CapBad").replace("/\\ tactic' = [tactic EXCEPT ![carry] = @ - 1]", "/\\ tactic' = tactic")
    if bad.count("tactic' = tactic") != 1:
        raise Inconclusive("cannot derive the vacuity twin of CapInd.tla")
    open(os.path.join(sub, "CapBad.tla"), "w").write(bad)
    jobs = [("CapInd.tla", ["--init=IndInit", "--inv=IndInv", "--length=1"], False), ("CapInd.tla", ["--init=IndInit", "--inv=Capacity", "--length=0"], False),
            ("CapBad.tla", ["--init=IndInit", "--inv=IndInv", "--length=1"], True)]
    if v.tier == "thorough":
        jobs.insert(0, ("CapInd.tla", ["--init=Init", "--inv=IndInv", "--length=0"], False))
    res = {}
    for mod, args, expect_error in jobs:
        rc, out, wall = apalache(sub, mod, args, timeout=600)
        err = "The outcome is: Error" in out
        if not err and "The outcome is: NoError" not in out:
            raise Inconclusive("apalache failed on %s %s\n%s" % (mod, args, out[-2000:]))
        if err != expect_error:
            raise Inconclusive("CapInd obligation %s %s: expected %s" % (mod, args, "a counter-example" if expect_error else "NoError"))
        res["%s %s" % (mod, " ".join(args))] = "counter-example (expected, vacuity twin)" if err else "NoError (%.0fs)" % wall
    v.cov["apalache_inductive_capacity"] = res
    # TLAPS: the capacity invariant of the abstraction both simplified disciplines are built on (InnerAbs.tla), for every H.
    # A proof attempt that does not go through is reported in the evidence; it is neither a verdict nor a failure of the check.
    subp = os.path.join(sc, "tlaps")
    os.makedirs(subp, exist_ok=True)
    stage_specs(subp)
    try:
        rc, out, wall = run(["tlapm", "--threads", "8", "--cleanfp", "InnerAbs_Proof.tla"], cwd=subp, timeout=300, env=dict(TMPDIR=subp))
        m = re.search(r"All (\d+) obligations? proved", out)
        v.cov["tlaps_innerabs_capacity"] = ("%s obligations proved (Spec => []Capacity for every H in Nat)" % m.group(1)) if m else "not proved: " + out[-300:]
    except Exception as e:  # tool trouble only
        v.cov["tlaps_innerabs_capacity"] = "tlapm did not run: %s" % str(e)[:200]


def check_C01(tier):
    return v2_property("C01", tier, cfgs_basic(tier), "stall", free=True, v1kinds=("dyn", "stop"), v1models=models_v1_basic, simple=True, extra=capind_C01, v2rand=True,
                       nontrivial=lambda t: t["Q"] is not None and t["Q"] == t["reset"]["H"],
                       rule="transition-cover paths of the TLC state graph of each bounded PrioV2 configuration (real divider table), replayed "
                            "gated into the real v2 scheduler, then the stall continuation (inputs kept full, everything received, nothing "
                            "released); verdict by Mon_Prio: received - release-issued <= H at every event and at the stall point. "
                            "non-trivial = the stall point reached exactly H unreleased items; distinct by the observed event sequence")


def check_C02(tier):
    return v2_property("C02", tier, cfgs_basic(tier), "drain", free=True, v1kinds=("dyn", "grace"), v1models=models_v1_basic, simple=True, v2rand=True,
                       nontrivial=lambda t: t["OC"] and t["R"] >= 3,
                       rule="same replayed paths, continuation = close all inputs, release and drain everything; verdict by Mon_Prio: per input "
                            "consecutive ordinals, tag = registered priority, nothing missing when Output() closes, nothing received that was "
                            "not written. non-trivial = terminated trace with >= 3 deliveries; distinct by the observed event sequence")


def check_C07(tier):
    return v2_property("C07", tier, cfgs_basic(tier), "drain", free=True, v1kinds=("grace", "dyn"), v1models=models_v1_grace, simple=True, v2rand=True,
                       nontrivial=lambda t: t["OC"] and t["R"] >= 1,
                       rule="replayed paths end in arbitrary model states (inputs open/closed, items held/unreleased); continuation closes, "
                            "releases and drains; verdict by Mon_Prio: Output()/Err() close only after every input is closed and emptied and "
                            "every delivered item released, they do close within the virtual deadline, Err() yields no non-nil value. "
                            "non-trivial = trace that delivered at least one item before closing; distinct by observed event sequence")


def liveness_C06(v, sc, binary):
    """U1 liveness: under fairness of the scheduler and of the environment (handlers release, producers write and close)
    every written item is eventually received and the discipline terminates; vacuity twin without environment fairness"""
    cfgs = [mk("p2live", [2, 1], 3, "rate", 2, 2), mk("p2ulive", [2, 1], 3, "rate", 1, 1, unbuf=(1,)), mk("p2skewlive", [10, 1], 11, "rate", 1, 1)]
    if v.tier == "thorough":
        cfgs += [mk("p3flive", [3, 2, 1], 4, "fair", 1, 1), mk("p3rlive", [3, 2, 1], 6, "rate", 1, 1), mk("p2revlive", [2, 1], 3, "rev", 2, 2),
                 mk("p3ulive", [3, 2, 1], 3, "fair", 1, 1, unbuf=(3, 1))]
    sub = os.path.join(sc, "live")
    os.makedirs(sub, exist_ok=True)
    stage_specs(sub)
    for cfg in cfgs:
        cfgp, rows = pm.div_table(binary, cfg, sub)
        name = pm.write_mc(sub, cfg, rows, spec="LiveSpec", properties=["C06_Live", "C07_Live"])
        r = tlc(sub, name, cfg=name + ".cfg", workers=14, timeout=1500)
        if not r.ok:
            raise Inconclusive("liveness of the model fails or TLC failed on %s (a lead to replay, not a verdict)\n%s" % (name, r.out[-3000:]))
        v.add_tlc(r, name + " liveness C06_Live, C07_Live under SchedFair /\\ EnvFair")
    cfg = cfgs[0]
    cfgp, rows = pm.div_table(binary, cfg, sub)
    name = pm.write_mc(sub, cfg, rows, spec="VacuitySpec", properties=["C07_Live"])
    r = tlc(sub, name, cfg=name + ".cfg", workers=14, timeout=900)
    if not r.prop_violated:
        raise Inconclusive("vacuity guard: liveness holds even when handlers never release")
    v.cov["liveness_vacuity_guard"] = "violated as expected without environment fairness"


def check_C06(tier):
    idle = mk("p2idleunbuf", [2, 1], 3, "rate", 2, 2, unbuf=(2,))       # an OPEN, IDLE unbuffered input next to one that has data
    idle["items"]["2"] = 0
    idle["noclose"] = [2]
    cfgs = cfgs_basic(tier) + [mk("p2skew", [10, 1], 11, "rate", 1, 1), idle]
    if tier == "quick":
        cfgs = [cfgs[0], cfgs[2], cfgs[3], idle]
    return v2_property("C06", tier, cfgs, "alone", free=True, v1kinds=("alone", "dyn"),
                       nontrivial=lambda t: t.get("QA") is not None,
                       rule="TLC liveness (every written item eventually received, termination) under fairness, in bounded PrioV2 configs incl. an unbuffered "
                            "input and skewed priorities; real code: every cover path is replayed gated, then the continuation releases and drains everything "
                            "('nothing in flight'), gives data to ONE priority only and never releases: Mon_Prio demands that priority reaches H unreleased "
                            "items (granted all handlers, no release needed), and that nothing written stays undelivered once inputs are closed and "
                            "everything is released (Starved). non-trivial = trace in which the alone-scenario ran; distinct by events",
                       extra=liveness_C06, quick_limit=500, thorough_limit=4000)   # every F6 trace is printed by the monitor run: keep their number bounded


def models_v1_grace(v, sc, binary):
    simple_model(v, sc, "MC_SimpleV1")
    simple_model(v, sc, "MC_SimpleV1_twinC07", expect="inv")
    simple_model(v, sc, "MC_SimpleV2", module="SimpleV2")
    simple_model(v, sc, "MC_SimpleV2_twin", expect="inv", module="SimpleV2")
    v2_refinement(v, sc, binary)
    v1_model(v, sc, binary, mk1("v1gracelive", [2, 1], {2: 1, 1: 2}, 2, "rate", 2, 1, 1, graceful=True), spec="GraceSpec", properties=["C07_Live"])


SHAREIND_TWINS = [
    ("ShareTop", "        /\\ tactic' = [p \\in Prios |-> strategic[p] - actual[p]]\n", "        /\\ tactic' = [p \\in Prios |-> IF actual[p] > 0 /\\ fb[p] > 0 THEN strategic[p] ELSE strategic[p] - actual[p]]\n",
     "top-up computed without subtracting what is still in flight (C05-a family)"),
    ("ShareBase", "Crowded == \\E p \\in Prios : actual[p] > strategic[p]", "Crowded == \\E p \\in Prios : actual[p] >= strategic[p] /\\ strategic[p] > 0",
     "crowded test weakened: the base path divides the vacants freely under saturation (C01-e family)"),
    ("ShareSend", "       /\\ tactic' = [tactic EXCEPT ![p] = @ - 1]\n", "       /\\ tactic' = tactic\n", "send without consuming the tactical share"),
]


def shareind_C05(v, sc, binary):
    """first clause of C05 for EVERY HandlersQuantity and every strategic division of it, any order and grouping of releases: ShareInd.tla, Apalache"""
    apalache_inductive(v, sc, "ShareInd", SHAREIND_TWINS, "apalache_inductive_share", stage_specs)
    v.notes.append("per-priority share under saturation (out[p] <= strategic[p]) proved inductive for every HandlersQuantity and every strategic division on "
                   "the counter abstraction ShareInd.tla (Apalache, 3 priorities); twins: " + "; ".join(t[3] for t in SHAREIND_TWINS) + " - each rejected")


def check_C05(tier):
    huge = mk("p3hugesat", [3, 2, 1], 4, "fair", 1, 0, sat=True)      # priorities 2^64-1, 2, 1: magnitudes TLC cannot carry, mapped to identifiers
    huge["vals"] = {"3": "18446744073709551615", "2": "2", "1": "1"}
    half = mk("p3halfsat", [3, 2, 1], 7, "fair", 1, 0, sat=True)
    half["vals"] = {"3": str(2 ** 63 + 5), "2": str(2 ** 62), "1": "1"}
    cfgs = [mk("p2sat", [2, 1], 3, "rate", 2, 0, sat=True), mk("p3fsat", [3, 2, 1], 4, "fair", 1, 0, sat=True), mk("p3sat", [3, 2, 1], 6, "rate", 1, 0, sat=True), huge]
    if tier == "thorough":
        cfgs.append(half)
    if tier == "thorough":
        cfgs += [mk("p3f3sat", [3, 2, 1], 3, "fair", 1, 0, sat=True), mk("p2revsat", [2, 1], 3, "rev", 2, 0, sat=True),
                 mk("p4sat", [4, 3, 2, 1], 7, "rate", 1, 0, sat=True), mk("p4fsat", [4, 3, 2, 1], 5, "fair", 1, 0, sat=True)]
    return v2_property("C05", tier, cfgs, "stall", v1kinds=("sat",),
                       nontrivial=lambda t: t["Q"] is not None and t["R"] > t["reset"]["H"],
                       rule="saturated PrioV2 configurations (infinite supply, every release order and grouping enumerated by TLC); paths replayed "
                            "with every input topped up before each scheduler step; verdict by Mon_Prio: per-priority received - release-issued "
                            "<= share at every event, and at the stall point (nothing outstanding) every priority holds exactly its share, share = "
                            "real divider(all priorities, H). non-trivial = trace with more deliveries than H (shares were recycled); distinct by events",
                       quick_limit=800, extra=shareind_C05)


def check_C15(tier):
    cfgs = [mk("p2fault", [2, 1], 3, "rate", 2, 2, faults=1), mk("p2flfault", [2, 1], 4, "fairlow", 1, 1, faults=1)]
    if tier == "thorough":
        cfgs += [mk("p3ffault", [3, 2, 1], 4, "fair", 1, 1, faults=1), mk("p3rfault", [3, 2, 1], 6, "rate", 1, 1, faults=1),
                 mk("p2revfault", [2, 1], 3, "rev", 2, 2, faults=1)]
    return v2_property("C15", tier, cfgs, "drain", level="fault_enumeration", v1kinds=("fault", "dyn"), v2rand=True,   # dyn: the contract clause across AddInput/RemoveInput (seeded change C15-e)
                       nontrivial=lambda t: t["reset"].get("fault"),
                       rule="fault model: TLC corrupts the result of any ONE divider call (over- or under-allocation) at any reachable state of the "
                            "bounded PrioV2 configurations; every such behaviour is in the transition cover and is replayed with the fault injected at "
                            "that very call of the real code; verdict by Mon_Prio: ErrDividerBad on Err(), no delivery after detection, capacity kept, "
                            "termination after the releases. non-trivial = trace in which the injected fault produced a non-zero total different from "
                            "the dividend; distinct by events",
                       extra=extra_C15)


def free_v2(sc, binary, tier):
    """free-running randomized runs of the real v2 discipline (real goroutines and clock, -race)"""
    sub = os.path.join(sc, "free")
    os.makedirs(sub, exist_ok=True)
    env = dict(OUT_DIR=sub, FREE_RUNS=60 if tier == "quick" else 1500, FREE_SECONDS=15 if tier == "quick" else 150)
    rc, out, wall = run_test(binary, "TestFreeV2$", env=env, timeout=900)
    m = re.search(r"FREE runs=(\d+) events=(\d+) distinct_divider_calls=(\d+)", out)
    if not m:
        raise Inconclusive("free-running driver died\n" + out[-3000:])
    return sub, dict(runs=int(m.group(1)), events=int(m.group(2)), calls=int(m.group(3)), races=races_in(out), out=out)


def free_v2_sat(sc, binary, tier):
    sub = os.path.join(sc, "freesat")
    os.makedirs(sub, exist_ok=True)
    rc, out, wall = run_test(binary, "TestFreeV2Sat$", env=dict(OUT_DIR=sub, FREESAT_RUNS=12 if tier == "quick" else 120), timeout=900)
    m = re.search(r"FREESAT runs=(\d+) events=(\d+)", out)
    if not m:
        raise Inconclusive("free-running saturated driver died\n" + out[-3000:])
    return os.path.join(sub, "freesat_events.ndjson"), dict(runs=int(m.group(1)), events=int(m.group(2)), wall_s=round(wall, 1))


def extra_C15(v, sc, binary):
    """divider contract (arguments seen by a wrapping divider in free-running runs) and the constructor clause"""
    from pure import run_utils, line_of, tlc_calls
    sub, st = free_v2(sc, binary, v.tier)
    stage_specs(sub)
    calls = os.path.join(sub, "contract_calls.ndjson")
    n_extra = 0
    with open(calls, "a") as out:  # plus the calls seen by the wrapping dividers of the gated runs of this check (v2 replays, v1 recorder)
        for root, _, fs in os.walk(sc):
            for f in fs:
                if f in ("contract_replay.ndjson", "contract_v1.ndjson"):
                    for line in open(os.path.join(root, f)):
                        out.write(line)
                        n_extra += 1
    res, viol, drift = tlc_calls(sub, "PureContract", "i", v, ("C15",))
    for inv, idx in viol[:3]:
        c = line_of(calls, idx)
        v.violation("C15: divider called outside its contract: %s" % json.dumps(c), dict(kind="divider-contract", call=c))
    v.cov["divider_calls_checked"] = st["calls"] + n_extra
    # constructor clause via the pure engine's PureUtils (C15_new) on the real v2 New
    sub2 = os.path.join(sc, "utils")
    os.makedirs(sub2, exist_ok=True)
    calls2, res2, viol2, other = run_utils(v.tier, v, sub2, ("C15",))
    for inv, idx in viol2[:3]:
        c = line_of(calls2, idx)
        v.violation("C15 constructor clause: %s fails for %s" % (inv, json.dumps(c)[:600]), dict(kind="utils-call", invariant=inv, call=c))
    v.cov["constructor_calls_checked"] = res2.distinct


def replay_file(pid, obj):
    """re-execute one recorded violation: the model path is replayed into the current tree and re-judged by the monitor"""
    r = obj["replay"]
    v = Verdict(pid, "quick", "model_checking")
    with Scratch("replay") as sc:
        binary = os.path.join(sc, "prioh.test")
        build_test("prioh", binary)
        cfg = r["cfg"]
        cfgp = os.path.join(sc, "cfg.json")
        json.dump(cfg, open(cfgp, "w"))
        paths = os.path.join(sc, "paths.ndjson")
        with open(paths, "w") as f:
            f.write(json.dumps(r["path"]) + "\n")
        rp = replay(binary, sc, cfgp, paths, r["cont"])
        viol, events = run_monitor(sc, [os.path.join(sc, "replay_events.ndjson")], v)
        print("replayed: diverged=%d monitor=%s" % (rp["diverged"], {k: len(s) for k, s in viol.items()}))
        if pid in viol:
            print("VIOLATION property=%s replay=%s" % (pid, "(reproduced)"))
            return 1
    return 0


# ================================================================================================ v1
INV_V1 = ["TypeOK", "C01_Capacity", "C01_Round", "C01_Conservation", "C02_Order", "C07_Graceful", "C15_FailSafe"]


def mk1(name, uni, init, H, div, nc, cap, items, outcap=2, fbcap=2, **kw):
    c = dict(name=name, ver=1, prios=uni, nc=nc, initchan={str(p): init.get(p, 0) for p in uni}, H=H, div=div,
             incap={str(c): cap for c in range(1, nc + 1)}, items={str(c): items for c in range(1, nc + 1)}, outcap=outcap, fbcap=fbcap,
             stop=False, cancel=False, graceful=False, adds=[], rmvs=[], faults=0)
    for k, val in kw.items():
        if k == "unbuf":
            for ch in val:
                c["incap"][str(ch)] = 0
        else:
            c[k] = val
    return c


def v1_rmvshare():
    c = mk1("v1rmvshare", [3, 2, 1], {3: 1, 2: 2, 1: 3}, 8, "rate", 3, 4, 60, outcap=1, fbcap=4, rmvs=[1], extra=dict(stall=True, pressure_after_remove=True, eager_release=True, quiet_until_remove=True))
    c["items"]["3"] = 1
    c["runs_factor"] = 4
    return c


def v1_configs(kind, tier):
    """recorder configurations (real code); the TLC configurations are smaller variants of the same shapes"""
    big = tier == "thorough"
    if kind == "stop":
        return [mk1("v1stop", [2, 1], {2: 1, 1: 2}, 3, "rate", 2, 1, 6, stop=True, graceful=True),
                mk1("v1stopsilent", [2, 1], {2: 1, 1: 2}, 3, "rate", 2, 2, 8, stop=True, extra=dict(silent_after_stop=True)),
                mk1("v1cancel", [3, 2, 1], {3: 1, 2: 2, 1: 3}, 4, "fair", 3, 1, 5, cancel=True, graceful=True, extra=dict(silent_after_stop=True)),
                mk1("v1stopunbuf", [2, 1], {2: 1, 1: 2}, 3, "rate", 2, 1, 5, stop=True, cancel=True, unbuf=[2], outcap=1, fbcap=1),
                # consumer not reading: the scheduler is blocked writing to the output when the stop / cancellation arrives
                mk1("v1cancelnocons", [2, 1], {2: 1, 1: 2}, 3, "rate", 2, 2, 6, cancel=True, outcap=1, extra=dict(silent_after_stop=True, no_consumer=True)),
                mk1("v1stopnocons", [3, 2, 1], {3: 1, 2: 2, 1: 3}, 4, "fair", 3, 1, 5, stop=True, outcap=2, extra=dict(silent_after_stop=True, no_consumer=True))]
    if kind == "dyn":
        return [mk1("v1dyn", [3, 2, 1], {2: 1, 1: 2}, 3, "fair", 4, 1, 5, graceful=True, adds=[[3, 3], [4, 1]], rmvs=[2]),
                mk1("v1dynrate", [3, 2, 1], {3: 1, 2: 2}, 6, "rate", 4, 2, 6, graceful=True, adds=[[3, 1], [4, 2]], rmvs=[3, 1]),
                mk1("v1dynunbuf", [3, 2, 1], {2: 1, 1: 2}, 4, "fair", 3, 1, 4, graceful=True, adds=[[3, 3]], rmvs=[1], unbuf=[2], outcap=1, fbcap=1),
                # remove and re-add of the SAME priority (with items of it possibly in flight), and replacement of a drained channel
                mk1("v1readd", [2, 1], {2: 1, 1: 2}, 4, "fair", 4, 2, 3, graceful=True, adds=[[3, 1], [4, 2]], rmvs=[1]),
                mk1("v1readdstall", [2, 1], {2: 1, 1: 2}, 4, "fair", 4, 2, 4, adds=[[3, 1]], rmvs=[1], extra=dict(stall=True)),
                mk1("v1dynstall", [3, 2, 1], {3: 1, 2: 2}, 6, "rate", 4, 2, 5, adds=[[3, 1], [4, 2]], rmvs=[3], extra=dict(stall=True)),
                # a priority with little data (it uses up its first share, is granted a second one it cannot use, its items are
                # released) is removed while the others have plenty: what was set aside for it must not be handed out a second time
                v1_rmvshare()]
    if kind == "grace":
        return [mk1("v1grace", [2, 1], {2: 1, 1: 2}, 3, "rate", 2, 2, 6, graceful=True),
                mk1("v1gracefair", [3, 2, 1], {3: 1, 2: 2, 1: 3}, 4, "fair", 3, 1, 4, graceful=True, unbuf=[3], outcap=1)]
    if kind == "alone":
        al = dict(alone=True)
        return [mk1("v1alone", [2, 1], {2: 1, 1: 2}, 3, "rate", 2, 2, 4, extra=al),
                mk1("v1alonefair", [3, 2, 1], {3: 1, 2: 2, 1: 3}, 4, "fair", 3, 1, 3, extra=al),
                mk1("v1aloneskew", [10, 1], {10: 1, 1: 2}, 11, "rate", 2, 2, 3, extra=al),
                mk1("v1aloneunbuf", [2, 1], {2: 1, 1: 2}, 3, "rate", 2, 2, 3, extra=al, unbuf=[1]),   # the other input is unbuffered, open and idle
                mk1("v1alonezero", [3, 2, 1], {3: 1, 2: 2, 1: 3}, 1, "rate", 3, 2, 3, extra=al)]   # fatal by the subset definition: F4
    if kind == "sat":   # C05 on v1: static saturated inputs; H not a multiple of the number of priorities, Rate with a rounding remainder
        return [mk1("v1satfair", [3, 2, 1], {3: 1, 2: 2, 1: 3}, 4, "fair", 3, 2, 100000, saturated=True),
                mk1("v1satrate", [4, 3, 2, 1], {4: 1, 3: 2, 2: 3, 1: 4}, 15, "rate", 4, 2, 100000, saturated=True),
                mk1("v1satfair5", [3, 2, 1], {3: 1, 2: 2, 1: 3}, 5, "fair", 3, 1, 100000, saturated=True, outcap=1, fbcap=1)]
    if kind == "fault":
        return [mk1("v1fault", [2, 1], {2: 1, 1: 2}, 3, "rate", 2, 2, 6, graceful=True, faults=1),
                mk1("v1faultfair", [3, 2, 1], {3: 1, 2: 2, 1: 3}, 4, "fair", 3, 1, 4, graceful=True, faults=1),
                # priority values 2^64-1, 2, 1 (identifiers 3, 2, 1 in the model and in the logs)
                mk1("v1hugefault", [3, 2, 1], {3: 1, 2: 2, 1: 3}, 4, "fair", 3, 1, 4, graceful=True, faults=1,
                    vals={"3": "18446744073709551615", "2": "2", "1": "1"})]
    raise ValueError(kind)


def v1_model(v, sc, binary, cfg, spec="Spec", properties=(), invariants=INV_V1, expect_violation=False, timeout=1500):
    sub = os.path.join(sc, "m-" + cfg["name"])
    os.makedirs(sub, exist_ok=True)
    stage_specs(sub)
    cfgp, rows = pm.div_table(binary, cfg, sub)
    name = pm.write_mc_v1(sub, cfg, rows, invariants=invariants, properties=properties, spec=spec)
    r = tlc(sub, name, cfg=name + ".cfg", workers=14, timeout=timeout)
    if expect_violation:
        if not r.prop_violated:
            raise Inconclusive("regression twin %s: expected the liveness property to fail on the model of the pinned tree" % name)
        v.cov.setdefault("regression_twins", []).append("%s: %s violated as expected (model of the pinned tree, F3)" % (name, ",".join(properties)))
        return r
    if not r.ok:
        raise Inconclusive("TLC: model %s fails (a lead, not a verdict) or TLC failed\n%s" % (name, r.out[-3000:]))
    v.add_tlc(r, "%s %s %s" % (name, spec, " ".join(properties)))
    return r


def spin_verdict(sub):
    """the recorder exited 3: its watchdog found no harness progress for several seconds of wall time. Decide from the goroutine dump."""
    try:
        dump = open(os.path.join(sub, "spin_dump.txt")).read()
        mark = json.load(open(os.path.join(sub, "spin_marker.json")))
    except (OSError, ValueError):
        return None
    spinning = None
    for g in dump.split("\n\n"):
        head = g.split("\n", 1)[0]
        if "github.com/akramarenkov/cqos" in g and re.search(r"\[(running|runnable)", head) and "verifharness" not in g.split("\n")[1]:
            spinning = g
    stop_waiting = "breaker.(*Breaker).Break" in dump
    if spinning and stop_waiting:
        return dict(marker=mark, goroutine=spinning[:1500])
    return None


def record_v1(binary, sc, cfg, runs, timeout=900, only=0):
    sub = os.path.join(sc, "r-" + cfg["name"])
    os.makedirs(sub, exist_ok=True)
    cfgp = os.path.join(sub, "cfg.json")
    json.dump(cfg, open(cfgp, "w"))
    runs = int(runs) * int(cfg.get("runs_factor", 1))     # rare scenarios get more schedules (they are cheap)
    if cfg.get("extra", {}).get("alone"):                  # the alone-scenario reproduces the known findings F4 / F6 in most runs of some
        runs = min(runs, 400)                              # configurations: every such trace is printed by the monitor run (-continue)
    rc, out, wall = run_test(binary, "TestRecordV1$", env=dict(CFG=cfgp, OUT_DIR=sub, V1_RUNS=runs, ONLY_RUN=only), timeout=timeout)
    spin = None
    if rc == 3:
        spin = spin_verdict(sub)
        if spin is None:
            raise Inconclusive("v1 recorder watchdog fired without a spinning library goroutine\n" + out[-2000:])
    elif "RECORDED v1" not in out:
        # the bubble could not be left (a goroutine of the code under test never ends): the runs recorded so far, including
        # the offending one (flushed from inside the bubble), are still judged; without any record it is inconclusive
        if not os.path.exists(os.path.join(sub, "v1_events.ndjson")) or os.path.getsize(os.path.join(sub, "v1_events.ndjson")) == 0:
            raise Inconclusive("v1 recorder died\n" + out[-3000:])
        log("v1 recorder for %s ended early: %s" % (cfg["name"], out[-600:].replace("\n", " | ")))
    allf = os.path.join(sub, "v1_events.ndjson")
    obsf = os.path.join(sub, "v1_obs.ndjson")
    n_s = 0
    with open(allf) as f, open(obsf, "w") as o:
        for line in f:
            if line.startswith('{"e":"S"'):
                n_s += 1
            else:
                o.write(line)
    return dict(sub=sub, all=allf, obs=obsf, sched_events=n_s, races=races_in(out), spin=spin, wall=wall)


def mks(name, ver, prios, H, div, cap, items, **kw):
    c = dict(name=name, ver=ver, prios=prios, nc=len(prios), initchan={str(p): i + 1 for i, p in enumerate(prios)}, H=H, div=div,
             incap={str(i + 1): cap for i in range(len(prios))}, items={str(i + 1): items for i in range(len(prios))},
             stop=False, cancel=False, graceful=False)
    c.update(kw)
    return c


def simple_configs(tier, pid=None):
    return simple_configs_base(tier) + ([
        # fewer handlers than inputs (v1 accepts it; v2 New refuses): the configured quantity is still the bound (seeded change C01-f) and
        # a priority with a ZERO strategic share is still an input that must be closed and emptied before a graceful end (C02-d).
        # Fair, {3,2,1}, H=2 on purpose: the zero-share priority is served from the unused remainder whenever the others are idle
        # (it is alone in the 'useful' list of recalcTactic), so the known finding F4 (Rate, H=1: a zero-share priority alone in having
        # data is never served) is not reproduced here. Not in C16/C19 (nothing to gain there).
        mks("simple1few", 1, [3, 2, 1], 2, "fair", 1, 4, stop=True, graceful=True)] if pid in ("C01", "C02", "C07") else [])


def simple_configs_base(tier):
    return [mks("simple2fair", 2, [3, 2, 1], 4, "fair", 2, 5), mks("simple2rate", 2, [2, 1], 3, "rate", 1, 6),
            mks("simple1", 1, [2, 1], 3, "rate", 2, 6, stop=True, cancel=True, graceful=True),
            mks("simple1fair", 1, [3, 2, 1], 4, "fair", 1, 4, stop=True, graceful=True)]


def record_simple(binary, sc, cfg, runs, timeout=900, only=0):
    sub = os.path.join(sc, "s-" + cfg["name"])
    os.makedirs(sub, exist_ok=True)
    cfgp = os.path.join(sub, "cfg.json")
    json.dump(cfg, open(cfgp, "w"))
    rc, out, wall = run_test(binary, "TestRecordSimple$", env=dict(CFG=cfgp, OUT_DIR=sub, SIMPLE_RUNS=runs, ONLY_RUN=only), timeout=timeout)
    f = os.path.join(sub, "simple_events.ndjson")
    spin = spin_verdict(sub) if rc == 3 else None
    if "RECORDED simple" not in out and not spin:
        if not os.path.exists(f) or os.path.getsize(f) == 0:
            raise Inconclusive("simple recorder died\n" + out[-3000:])
        log("simple recorder for %s ended early: %s" % (cfg["name"], out[-500:].replace("\n", " | ")))
    return dict(obs=f, races=races_in(out), spin=spin, wall=wall)


def conformance_simple(v, sc, cfg, rec, limit=0):
    """trace validation (code -> spec) of recorded v1 Simple runs against SimpleV1.tla; the unlogged steps of main, of the helper,
    of the inner discipline and of the handlers are found by TLC.  Accepted traces "violate" NotDone once; the others are DRIFT."""
    sub = os.path.join(sc, "ts-" + cfg["name"])
    os.makedirs(sub, exist_ok=True)
    stage_specs(sub)
    shutil.copy(rec["obs"], os.path.join(sub, "trace.ndjson"))
    module = "Trace_SimpleV%d" % cfg["ver"]
    consts = "  SyncGraceful = FALSE\n  CompleteBeforeWait = FALSE\n" if cfg["ver"] == 1 else "  ReleaseBeforeHandle = FALSE\n  OutCap = %d\n" % max(cfg["H"] // 10, cfg["nc"])
    open(os.path.join(sub, "TS.cfg"), "w").write(
        "SPECIFICATION TSpec\nCONSTANTS\n  H = %d\n  Items = 100000\n%s"
        "INVARIANTS NotDone TraceInvariants\nVIEW TView\nCHECK_DEADLOCK FALSE\n" % (cfg["H"], consts))
    starts, complete = [], set()
    cur = None
    for j, line in enumerate(open(rec["obs"]), 1):
        if '"e":"Reset"' in line:
            cur = j
            starts.append(j)
        elif '"e":"Free"' in line and cur:
            complete.add(cur)
    if limit and len(complete) > limit:
        complete = set(sorted(complete)[:limit])
    if len(complete) < len(starts):        # a run without the end marker (recorder ended early): nothing to validate there
        keep, cur = [], None
        lines = open(rec["obs"]).read().splitlines()
        idx = starts + [len(lines) + 1]
        for a, b in zip(idx, idx[1:]):
            if a in complete:
                keep += lines[a - 1:b - 1]
        open(os.path.join(sub, "trace.ndjson"), "w").write("\n".join(keep) + "\n")
    n = len(complete)
    if n == 0:
        return dict(traces=0, drift=0, note="no complete trace")
    r = tlc(sub, module, cfg="TS.cfg", workers=8, timeout=1500, extra=["-continue"])
    tool_errors = [l for l in r.out.splitlines() if l.startswith("Error:") and "Invariant" not in l and "behavior up to this point" not in l]
    if not r.finished or r.distinct == 0 or tool_errors:
        raise Inconclusive("trace validation TLC failed on %s / %s: %s\n%s" % (module, cfg["name"], tool_errors[:2], r.out[-3000:]))
    v.add_tlc(r, "%s %s (trace validation of recorded Simple runs against SimpleV%d, silent steps searched)" % (module, cfg["name"], cfg["ver"]))
    acc, hits = set(), 0
    for inv, t0 in parse_violations(r.out, "t0"):
        if inv == "NotDone":
            acc.add(t0)
        else:
            hits += 1
    conf = dict(traces=n, accepted=len(acc), drift=n - len(acc), spec_invariant_hits=hits)
    if n - len(acc):
        v.notes.append("DRIFT (not a verdict): SimpleV%d.tla cannot explain %d of %d recorded %s traces" % (cfg["ver"], n - len(acc), n, cfg["name"]))
    return conf


def v2rand_configs(tier):
    c = [mk("r3unbuf", [3, 2, 1], 4, "fair", 1, 4, unbuf=(2,)), mk("r4rate", [7, 5, 3, 1], 10, "rate", 2, 5, unbuf=(3,)),
         mk("r2fault", [2, 1], 3, "rate", 1, 4, faults=1, unbuf=(1,)), mk("r5fairlow", [9, 7, 5, 3, 1], 7, "fairlow", 1, 3)]
    # a sum-preserving custom divider that writes a key which is not a priority: outside the PrioV2 model (nomodel: monitors only)
    sp = mk("r3spare", [3, 2, 1], 5, "spare", 2, 8)
    sp["items"]["3"] = 0
    sp.update(nomodel=True, extra=dict(stall=True))
    c.append(sp)
    if tier == "thorough":
        c += [mk("r6rate", [20, 10, 7, 5, 2, 1], 45, "rate", 3, 6, unbuf=(7, 2)), mk("r3fault", [3, 2, 1], 6, "rate", 2, 4, faults=1)]
    return c


def record_v2rand(v, sc, binary, cfg, runs):
    """gated random schedules of the real v2 code + trace validation against PrioV2 (code -> spec)"""
    sub = os.path.join(sc, "v2r-" + cfg["name"])
    os.makedirs(sub, exist_ok=True)
    stage_specs(sub)
    cfgp, rows = pm.div_table(binary, cfg, sub)
    rc, out, wall = run_test(binary, "TestRecordV2$", env=dict(CFG=cfgp, OUT_DIR=sub, V2_RUNS=runs), timeout=900)
    allf = os.path.join(sub, "v2_events.ndjson")
    if "RECORDED v2" not in out and (not os.path.exists(allf) or os.path.getsize(allf) == 0):
        raise Inconclusive("v2 random recorder died\n" + out[-3000:])
    obsf = os.path.join(sub, "v2_obs.ndjson")
    n_s = 0
    with open(allf) as f, open(obsf, "w") as o:
        for line in f:
            if line.startswith('{"e":"S"'):
                n_s += 1
            elif not line.startswith('{"e":"Free"'):
                o.write(line)
    if cfg.get("nomodel"):
        return dict(obs=obsf, sched_events=n_s, conf=dict(traces=runs, drift=0, spec_invariant_hits=0, first_unexplained=[], note="outside the model: judged by the monitor only"),
                    races=races_in(out), wall=wall)
    # trace validation
    name = pm.write_mc(sub, cfg, rows, module="Trace_PrioV2", invariants=["NotStuck", "TraceInvariants"], spec="TSpec")
    shutil.copy(allf, os.path.join(sub, "trace.ndjson"))
    r = tlc(sub, name, cfg=name + ".cfg", workers=8, timeout=1500, extra=["-continue"])
    tool_errors = [l for l in r.out.splitlines() if l.startswith("Error:") and "Invariant" not in l and "behavior up to this point" not in l]
    if not r.finished or r.distinct == 0 or tool_errors:
        raise Inconclusive("trace validation TLC failed on %s: %s\n%s" % (name, tool_errors[:2], r.out[-3000:]))
    v.add_tlc(r, name + " (trace validation of gated random v2 runs against PrioV2)")
    stuck = {}
    for inv, t0 in parse_violations(r.out, "t0"):
        stuck.setdefault(inv, set()).add(t0)
    where = []
    for b in r.out.split("Error: Invariant NotStuck is violated")[1:4]:
        m = re.findall(r"/\\ l = (\d+)", b)
        if m:
            where.append(int(m[-1]) + 1)
    lines = open(allf).readlines()
    conf = dict(traces=runs, drift=len(stuck.get("NotStuck", ())), spec_invariant_hits=len(stuck.get("TraceInvariants", ())),
                first_unexplained=[json.loads(lines[w - 1]) for w in where if w <= len(lines)][:3])
    return dict(obs=obsf, sched_events=n_s, conf=conf, races=races_in(out), wall=wall)


def conformance_v1(v, sc, binary, cfg, rec):
    """code -> spec: TLC validates the gated prefix of every recorded v1 trace against PrioV1 (Trace_PrioV1); returns drift info"""
    sub = os.path.join(sc, "t-" + cfg["name"])
    os.makedirs(sub, exist_ok=True)
    stage_specs(sub)
    tcfg = dict(cfg, adds=cfg.get("adds", []), rmvs=cfg.get("rmvs", []), stop=True, cancel=True, graceful=True)
    cfgp, rows = pm.div_table(binary, cfg, sub)
    name = pm.write_mc_v1(sub, tcfg, rows, invariants=["NotStuck", "TraceInvariants"], spec="TSpec", module="Trace_PrioV1", prefix="TR_")
    shutil.copy(rec["all"], os.path.join(sub, "trace.ndjson"))
    r = tlc(sub, name, cfg=name + ".cfg", workers=8, timeout=1500, extra=["-continue"])
    tool_errors = [l for l in r.out.splitlines() if l.startswith("Error:") and "Invariant" not in l and "behavior up to this point" not in l]
    if not r.finished or r.distinct == 0 or tool_errors:
        raise Inconclusive("trace validation TLC failed on %s: %s\n%s" % (name, tool_errors[:2], r.out[-3000:]))
    v.add_tlc(r, name + " (trace validation of recorded v1 runs against PrioV1)")
    stuck = {}
    for inv, t0 in parse_violations(r.out, "t0"):
        stuck.setdefault(inv, set()).add(t0)
    # where did each stuck trace stop?
    where = []
    if stuck.get("NotStuck"):
        blocks = r.out.split("Error: Invariant NotStuck is violated")
        for b in blocks[1:4]:
            m = re.findall(r"/\\ l = (\d+)", b)
            if m:
                where.append(int(m[-1]) + 1)
    n_traces = sum(1 for line in open(rec["all"]) if line.startswith('{"H"') or '"e":"Reset"' in line[:400])
    return dict(traces=n_traces, drift=len(stuck.get("NotStuck", ())), spec_invariant_hits=len(stuck.get("TraceInvariants", ())),
                first_unexplained=[json.loads(open(rec["all"]).readlines()[w - 1]) for w in where][:3])


def v1_property(pid, tier, kinds, nontrivial, rule, level="model_checking", models=None, runs=(250, 4000), simple=False, extra=None, post=None):
    v = Verdict(pid, tier, level)
    with Scratch(pid.lower() + "v1") as sc:
        binary = os.path.join(sc, "prioh.test")
        build_test("prioh", binary)
        if models:
            models(v, sc, binary)
        files, recs = [], []
        for kind in kinds:
            for cfg in v1_configs(kind, tier):
                rec = record_v1(binary, sc, cfg, runs[0] if tier == "quick" else runs[1])
                log("[%s] %s: recorded, %d scheduler events, %.1fs%s" % (pid, cfg["name"], rec["sched_events"], rec["wall"], " SPIN" if rec["spin"] else ""))
                recs.append((cfg, rec))
                files.append(rec["obs"])
                if rec["spin"] is None:
                    conf = conformance_v1(v, sc, binary, cfg, rec)
                    log("[%s] %s: trace validation: %d traces, %d drift" % (pid, cfg["name"], conf["traces"], conf["drift"]))
                    v.cov.setdefault("conformance", {})[cfg["name"]] = conf
                if rec["spin"]:
                    v.violation("C16: after Stop() the scheduling goroutine spins without ever blocking and Stop() never returns (config %s, run %s, seed %s)"
                                % (cfg["name"], rec["spin"]["marker"].get("run"), rec["spin"]["marker"].get("seed")),
                                dict(kind="prio-v1-spin", cfg=cfg, **rec["spin"])) if pid == "C16" else v.notes.append("spin detected in %s (verdict of C16)" % cfg["name"])
        if simple:
            for cfg in simple_configs(tier):
                if cfg["ver"] != 1:
                    continue
                rec = record_simple(binary, sc, cfg, 150 if tier == "quick" else 3000)
                log("[%s] %s: recorded, %.1fs" % (pid, cfg["name"], rec["wall"]))
                files.append(rec["obs"])
                conf = conformance_simple(v, sc, cfg, rec, limit=60 if tier == "quick" else 300)
                log("[%s] %s: trace validation against SimpleV1: %s" % (pid, cfg["name"], conf))
                v.cov.setdefault("conformance", {})[cfg["name"]] = conf
        if extra:
            extra(v, sc)
        viol, events = run_monitor(sc, files, v)
        log("[%s] monitor: %s" % (pid, {k: len(x) for k, x in viol.items()}))
        traces = stats_of(events)
        for t0 in sorted(viol.get(pid, set()))[:5]:
            tr = trace_at(events, t0)
            v.violation("%s: monitor Mon_Prio rejects a trace recorded from the real v1 code (config %s, run %d, seed %s): %s" % (
                pid, tr[0].get("cfg"), tr[0]["path"], tr[0].get("seed"), summarize(pid, tr)),
                dict(kind="prio-v1-run", cfg=tr[0].get("cfg"), run=tr[0]["path"], seed=tr[0].get("seed"), steps=tr[0].get("steps"), observed=tr[:500]))
        nt = [t for t in traces if nontrivial(t)]
        v.cov.update(evaluations=len(traces), distinct_nontrivial=len({t["sig"].hexdigest() for t in nt}),
                     traces_validated_against_impl=len(traces) - len({t0 for s in viol.values() for t0 in s}),
                     rule=rule, exhaustive=False, scheduler_events=sum(r["sched_events"] for _, r in recs),
                     other_properties_flagged={k: len(s) for k, s in viol.items() if k != pid})
        if traces:
            v.sample(dict(observed_trace=[(e["e"], e.get("p"), e.get("c"), e.get("k")) for e in trace_at(events, 1)][:60]))
            if len(traces) > 7:
                t7 = [j for j, e in enumerate(events, 1) if e["e"] == "Reset"][7]
                v.sample(dict(observed_trace=[(e["e"], e.get("p"), e.get("c"), e.get("k")) for e in trace_at(events, t7)][:60]))
        v.assumptions += ["Go 1.26.8 testing/synctest virtual clock", "TLC", "seeded random gated schedules (not a transition cover) on the v1 code"]
    if post:
        post(v)
    return v.finish()


def has(t, *names):
    return any(n in t.get("kinds", ()) for n in names)


def simple_model(v, sc, cfg, expect=None, module="SimpleV1"):
    """SimpleV1.tla (main + deferred chain + gracefulStop helper + handlers): TLC on a static configuration; expect = None (must pass),
    "live" (regression twin: the liveness property must fail), "inv" (an invariant must fail)"""
    sub = os.path.join(sc, "sm-" + cfg)
    os.makedirs(sub, exist_ok=True)
    stage_specs(sub)
    r = tlc(sub, module, cfg=cfg + ".cfg", workers=8, timeout=900)
    if expect is None:
        if not r.ok:
            raise Inconclusive("TLC: %s / %s fails (a lead, not a verdict) or TLC failed\n%s" % (module, cfg, r.out[-2500:]))
        v.add_tlc(r, "%s %s (%s)" % (module, cfg, "v1 simplified discipline: main, deferred chain, gracefulStop helper, handlers" if module == "SimpleV1"
                                     else "v2 simplified discipline: handlers ranging over the inner discipline's output, Release after Handle"))
        return
    got = r.prop_violated if expect == "live" else bool(r.inv_violated)
    if not got:
        raise Inconclusive("regression twin %s / %s: expected a %s violation on the model of the defective variant" % (module, cfg, expect))
    v.cov.setdefault("regression_twins", []).append("%s %s: violated as expected (%s)" % (module, cfg, expect))


def v1_refinement(v, sc, binary):
    """PrioV1 (static inputs, stop / cancel / graceful) implements InnerAbs, the abstraction of the inner discipline SimpleV1.tla is
    built on: TLC checks the temporal property Abs!Spec under the refinement mapping of PrioV1_Refines.tla; a twin with one handler
    less must fail"""
    cfg = mk1("v1ref", [2, 1], {2: 1, 1: 2}, 2, "rate", 2, 1, 2, stop=True, cancel=True, graceful=True)
    sub = os.path.join(sc, "m-v1ref")
    os.makedirs(sub, exist_ok=True)
    stage_specs(sub)
    cfgp, rows = pm.div_table(binary, cfg, sub)
    name = pm.write_mc_v1(sub, cfg, rows, invariants=["AbsCapacity"], properties=["AbsSpec"], spec="Spec", module="PrioV1_Refines")
    r = tlc(sub, name, cfg=name + ".cfg", workers=8, timeout=1500)
    if not r.ok:
        raise Inconclusive("TLC: refinement PrioV1 => InnerAbs fails (a lead, not a verdict) or TLC failed\n%s" % r.out[-2500:])
    v.add_tlc(r, "%s: PrioV1 => InnerAbs (refinement mapping; the abstraction SimpleV1 uses for the inner discipline)" % name)
    twin = pm.write_mc_v1(sub, cfg, rows, properties=["AbsTightSpec"], spec="Spec", module="PrioV1_Refines", prefix="MCT_")
    rt = tlc(sub, twin, cfg=twin + ".cfg", workers=8, timeout=1500)
    if not rt.prop_violated:
        raise Inconclusive("vacuity twin of the refinement check: an abstraction with H-1 handlers must not be implemented")
    v.cov.setdefault("regression_twins", []).append("%s: refinement into InnerAbs with H-1 violated as expected" % twin)


def v2_refinement(v, sc, binary):
    """PrioV2 (with and without a divider fault) implements InnerAbs with grace = TRUE, the abstraction SimpleV2.tla is built on"""
    for cfg in (mk("p2ref", [2, 1], 3, "rate", 1, 2), mk("p2reff", [2, 1], 3, "rate", 1, 2, faults=1)):
        sub = os.path.join(sc, "m-" + cfg["name"])
        os.makedirs(sub, exist_ok=True)
        stage_specs(sub)
        cfgp, rows = pm.div_table(binary, cfg, sub)
        name = pm.write_mc(sub, cfg, rows, module="PrioV2_Refines", invariants=["AbsCapacity"], properties=["AbsSpec"])
        r = tlc(sub, name, cfg=name + ".cfg", workers=8, timeout=1500)
        if not r.ok:
            raise Inconclusive("TLC: refinement PrioV2 => InnerAbs fails (a lead, not a verdict) or TLC failed\n%s" % r.out[-2500:])
        v.add_tlc(r, "%s: PrioV2 => InnerAbs (refinement mapping; the abstraction SimpleV2 uses for the inner discipline)" % name)


def models_C16(v, sc, binary):
    v1_refinement(v, sc, binary)
    simple_model(v, sc, "MC_SimpleV1")
    simple_model(v, sc, "MC_SimpleV1_twinF5", expect="live")
    small = mk1("v1stopm", [2, 1], {2: 1, 1: 2}, 2, "rate", 2, 1, 1, stop=True, cancel=True)   # 2 items can occupy both handlers
    v1_model(v, sc, binary, small, spec="StopSpec", properties=["C16_Live"])
    twin = dict(small, name="v1stoptwin", f3fixed=False)
    v1_model(v, sc, binary, twin, spec="StopSpec", properties=["C16_Live"], invariants=(), expect_violation=True)
    if v.tier == "thorough":
        v1_model(v, sc, binary, mk1("v1stopm2", [2, 1], {2: 1, 1: 2}, 3, "rate", 2, 1, 2, stop=True, graceful=True), spec="StopSpec", properties=["C16_Live"], timeout=3000)


def check_C16(tier):
    def extra_join(v):
        pass
    def join_part(v):
        import join
        join.check_C16_join(tier, v)     # v1 join: Stop returns, output closed, in-order duplicate-free subsequence
    return v1_property("C16", tier, ["stop"], level="fault_enumeration", simple=True, post=join_part,
                       nontrivial=lambda t: has(t, "Stop", "Cancel") and t["R"] >= 1,
                       rule="TLC: (stop or cancel requested) ~> terminated on the PrioV1 specification under scheduler fairness only (no environment help), with a "
                            "regression twin (the loop of the pinned tree must exhibit the F3 lasso); real code: seeded gated schedules inject Stop()/cancel at a "
                            "random scheduler step (before data, mid-round, 0..H in flight, output full, handlers silent afterwards), then give no help; Mon_Prio: Stop "
                            "returns / the discipline terminates by the virtual deadline, nothing is written afterwards, deliveries are an in-order duplicate-free "
                            "subsequence; a spinning scheduler is caught by a wall-clock watchdog + goroutine dump. non-trivial = stop/cancel with >= 1 delivery; distinct by events",
                       models=models_C16)


def models_C17(v, sc, binary):
    v1_model(v, sc, binary, mk1("v1dynm", [3, 2, 1], {2: 1, 1: 2}, 3, "fair", 3, 1, 1, graceful=True, adds=[[3, 3]], rmvs=[1]))
    if v.tier == "thorough":
        v1_model(v, sc, binary, mk1("v1dynm2", [3, 2, 1], {2: 1, 1: 2}, 3, "fair", 4, 1, 1, graceful=True, adds=[[3, 3], [4, 1]], rmvs=[1]), timeout=3000)


def check_C17(tier):
    return v1_property("C17", tier, ["dyn"],
                       nontrivial=lambda t: has(t, "AddRet", "RmvRet") and t["R"] >= 2,
                       rule="TLC: capacity, conservation, order and graceful-termination invariants of PrioV1 across every interleaving of one add, one replace/re-add and "
                            "one remove with traffic; real code: seeded gated schedules issue AddInput (new priority, replacement of a channel) and RemoveInput at random "
                            "scheduler steps; Mon_Prio: tag = the priority the channel is registered under, no element is taken from a removed/replaced channel after the "
                            "call returned (harness watches len() / parked writers), capacity and exactly-once across the change, GracefulStop returns. "
                            "non-trivial = a call returned and >= 2 deliveries; distinct by events",
                       models=models_C17)


def all_named_configs():
    out = {}
    for tier in ("quick", "thorough"):
        for kind in ("stop", "dyn", "grace", "fault", "alone"):
            for c in v1_configs(kind, tier):
                out[c["name"]] = ("v1", c)
        for c in simple_configs(tier, "C01"):
            out[c["name"]] = ("simple", c)
    return out


def replay_run(pid, obj):
    """re-execute one recorded v1 / simplified-discipline run (same configuration, run number and seed) on the current tree"""
    r = obj["replay"]
    kind, cfg = all_named_configs().get(r["cfg"], (None, None))
    if cfg is None:
        print("unknown configuration", r["cfg"])
        return 2
    v = Verdict(pid, "quick", "model_checking")
    with Scratch("replay") as sc:
        binary = os.path.join(sc, "prioh.test")
        build_test("prioh", binary)
        os.environ["VERIF_SEED"] = str((int(r["seed"]) - int(r["run"])) // 100003 // (7919 if kind == "v1" else 7927)) if r.get("seed") else os.environ.get("VERIF_SEED", "1")
        rec = (record_v1 if kind == "v1" else record_simple)(binary, sc, cfg, int(r["run"]), only=int(r["run"]))
        if rec.get("spin"):
            print("VIOLATION property=%s replay=(reproduced: spin)" % pid)
            return 1
        viol, events = run_monitor(sc, [rec["obs"]], v)
        print("replayed run %s of %s: monitor=%s" % (r["run"], r["cfg"], {k: len(s) for k, s in viol.items()}))
        if pid in viol:
            print("VIOLATION property=%s replay=(reproduced)" % pid)
            return 1
    return 0
