"""priority-engine (v2 part): PrioV2.tla model checked by TLC in bounded configurations generated from the
REAL divider table of the tree under test; transition-cover paths of the dumped state graph replayed into
the real scheduler (gated at the verif hooks, synctest bubble, -race) with the abstract state compared after
every step (spec -> code); adversarial continuations; observation traces decided by the TLA+ monitor
Mon_Prio.tla (verdict).  Divergence from the model is drift, never a violation."""
import json, os, random, re, shutil, hashlib
from common import *
import prio_model as pm
from pure import parse_violations

INV_ALL = ["TypeOK", "C01_Capacity", "C01_Round", "C01_Conservation", "C02_Order", "C07_Closed", "C15_FailSafe",
           "C15_ClosedAfterRelease", "C06_NoIdleBlock", "C05_Share", "C05_Full"]


def mk(name, prios, H, div, cap, items, sat=False, faults=0, unbuf=()):
    c = dict(name=name, prios=prios, H=H, div=div, incap={str(p): cap for p in prios}, items={str(p): items for p in prios},
             saturated=sat, faults=faults)
    for p in unbuf:
        c["incap"][str(p)] = 0
    return c


def model_and_paths(v, sc, binary, cfg, limit, rnd, invariants=INV_ALL, workers=14):
    """TLC: check the invariants on the bounded config and dump the graph; python: transition cover"""
    sub = os.path.join(sc, cfg["name"])
    os.makedirs(sub, exist_ok=True)
    stage_specs(sub)
    cfgp, rows = pm.div_table(binary, cfg, sub)
    name = pm.write_mc(sub, cfg, rows, invariants=invariants)
    dot = os.path.join(sub, "g.dot")
    r = tlc(sub, name, cfg=name + ".cfg", workers=workers, timeout=1500, extra=["-dump", "dot,actionlabels", dot])
    if not r.ok:
        if r.inv_violated:
            # a design-level counterexample is a lead, not a verdict about the code (it would have to be replayed)
            raise Inconclusive("model %s violates %s - specification needs attention\n%s" % (name, r.inv_violated, r.out[-2500:]))
        raise Inconclusive("TLC failed on %s\n%s" % (name, r.out[-2500:]))
    v.add_tlc(r, "%s: %s" % (name, json.dumps({k: cfg[k] for k in ("prios", "H", "div", "incap", "items", "saturated", "faults")})))
    paths = os.path.join(sub, "paths.ndjson")
    st = pm.cover_paths(dot, paths, pm.project_v2, cfg["prios"], limit=limit, rnd=rnd)
    os.remove(dot)
    return sub, cfgp, paths, st


def replay(binary, sub, cfgp, paths, cont, timeout=1500):
    rc, out, wall = run_test(binary, "TestReplayV2$", env=dict(CFG=cfgp, OUT_DIR=sub, PATHS=paths, CONT=cont), timeout=timeout)
    m = re.search(r"REPLAYED paths=(\d+) steps=(\d+) diverged=(\d+)", out)
    if not m:
        # the harness itself died (panic in the code under test is a finding of its own: report what we have)
        raise Inconclusive("replay driver died\n" + out[-3000:])
    return dict(paths=int(m.group(1)), steps=int(m.group(2)), diverged=int(m.group(3)), races=races_in(out), out=out, wall=wall)


def run_monitor(sc, event_files, v, module="Mon_Prio"):
    mon = os.path.join(sc, "mon")
    os.makedirs(mon, exist_ok=True)
    stage_specs(mon)
    with open(os.path.join(mon, "events.ndjson"), "w") as out:
        for f in event_files:
            with open(f) as fh:
                shutil.copyfileobj(fh, out)
    r = tlc(mon, module, cfg=module + ".cfg", workers=8, timeout=1500, extra=["-continue"])
    if not r.finished or (r.crashed and not r.inv_violated):
        raise Inconclusive("monitor TLC failed\n" + r.out[-3000:])
    v.add_tlc(r, module + " (observation monitor over recorded real traces)")
    viol = {}
    for inv, t0 in parse_violations(r.out, "t0"):
        viol.setdefault(inv.replace("M_", ""), set()).add(t0)
    events = read_ndjson(os.path.join(mon, "events.ndjson"))
    return viol, events


def trace_at(events, t0):
    out = [events[t0 - 1]]
    j = t0
    while j < len(events) and events[j]["e"] != "Reset":
        out.append(events[j])
        j += 1
    return out


def path_line(paths, n):
    with open(paths) as f:
        for k, line in enumerate(f, 1):
            if k == n:
                return json.loads(line)
    return None


def stats_of(events):
    """per-trace facts used for the non-triviality counts"""
    traces, cur = [], None
    for e in events:
        if e["e"] == "Reset":
            cur = dict(reset=e, n=0, R=0, Q=None, OC=False, sig=hashlib.sha1())
            traces.append(cur)
            continue
        cur["n"] += 1
        cur["sig"].update(("%s%s%s%s|" % (e["e"], e.get("p"), e.get("c"), e.get("k"))).encode())
        if e["e"] == "R":
            cur["R"] += 1
        elif e["e"] == "Q":
            cur["Q"] = sum(x[1] for x in e["held"])
        elif e["e"] == "OC":
            cur["OC"] = True
        elif e["e"] == "QA":
            cur["QA"] = e["held"]
    return traces


def v2_property(pid, tier, cfgs, cont, nontrivial, rule, level="model_checking", quick_limit=1200, thorough_limit=None, extra=None, free=False):
    v = Verdict(pid, tier, level)
    rnd = random.Random(seed())
    with Scratch(pid.lower()) as sc:
        binary = os.path.join(sc, "prioh.test")
        build_test("prioh", binary)
        files, jobs = [], []
        tot = dict(paths=0, steps=0, diverged=0, races=0)
        drift_samples = []
        for cfg in cfgs:
            limit = quick_limit if tier == "quick" else thorough_limit
            sub, cfgp, paths, st = model_and_paths(v, sc, binary, cfg, limit, rnd)
            log("[%s] %s: model %d states, %d/%d cover paths" % (pid, cfg["name"], st["nodes"], st["paths"], st["paths_total"]))
            rp = replay(binary, sub, cfgp, paths, cont)
            log("[%s] %s: replayed %d paths, %d steps, %d diverged, %.1fs" % (pid, cfg["name"], rp["paths"], rp["steps"], rp["diverged"], rp["wall"]))
            for k in tot:
                tot[k] += rp[k]
            files.append(os.path.join(sub, "replay_events.ndjson"))
            jobs.append((cfg, sub, paths, st, rp))
            if rp["diverged"]:
                for r in read_ndjson(os.path.join(sub, "replay_results.ndjson")):
                    if r["diverged"] and len(drift_samples) < 5:
                        drift_samples.append(dict(cfg=cfg["name"], **r))
            if rp["races"]:
                v.notes.append("race detector reported %d race(s) during replay of %s (verdict of C20)" % (rp["races"], cfg["name"]))
        free_stats = None
        if free:
            fsub, free_stats = free_v2(sc, binary, tier)
            files.append(os.path.join(fsub, "free_events.ndjson"))
            if free_stats["races"]:
                v.notes.append("race detector reported %d race(s) in free-running runs (verdict of C20)" % free_stats["races"])
        log("[%s] monitor ..." % pid)
        viol, events = run_monitor(sc, files, v)
        log("[%s] monitor done: %s" % (pid, {k: len(x) for k, x in viol.items()}))
        traces = stats_of(events)
        # map monitor violations of THIS property to replays
        bad_t0 = sorted(viol.get(pid, set()))
        offsets, off = [], 0
        for (cfg, sub, paths, st, rp) in jobs:
            n = sum(1 for _ in open(os.path.join(sub, "replay_events.ndjson")))
            offsets.append((off, off + n, cfg, paths))
            off += n
        for t0 in bad_t0[:5]:
            tr = trace_at(events, t0)
            hit = [(c, p) for (a, b, c, p) in offsets if a < t0 <= b]
            if not hit:  # a free-running trace
                v.violation("%s: monitor Mon_Prio rejects a free-running trace of the real code (run %d, %s): %s" % (
                    pid, tr[0]["path"], json.dumps(tr[0].get("cfg")), summarize(pid, tr)),
                    dict(kind="prio-v2-free", seed=seed(), run=tr[0]["path"], cfg=tr[0].get("cfg"), observed=tr[:400]))
                continue
            cfg, paths = hit[0]
            v.violation("%s: monitor Mon_Prio rejects a trace recorded from the real code (config %s, path %d): %s" % (
                pid, cfg["name"], tr[0]["path"], summarize(pid, tr)),
                dict(kind="prio-v2-replay", cfg=cfg, cont=cont, path=path_line(paths, tr[0]["path"]), observed=tr))
        nt = [t for t in traces if nontrivial(t)]
        accepted = len(traces) - len({t0 for s in viol.values() for t0 in s})
        v.cov.update(evaluations=len(traces), distinct_nontrivial=len({t["sig"].hexdigest() for t in nt}),
                     traces_validated_against_impl=max(0, accepted - tot["diverged"]),
                     rule=rule, exhaustive=(tier == "thorough"),
                     replayed_paths=tot["paths"], replayed_steps=tot["steps"], drift=tot["diverged"], drift_samples=drift_samples,
                     other_properties_flagged={k: len(s) for k, s in viol.items() if k != pid},
                     graphs=[dict(cfg=c["name"], **st) for (c, _, _, st, _) in jobs],
                     free_running={k: free_stats[k] for k in ("runs", "events", "calls")} if free_stats else None)
        for (cfg, sub, paths, st, rp) in jobs[:2]:
            p = path_line(paths, 1)
            v.sample(dict(cfg=cfg["name"], model_path=[("%s(%d)" % (s["a"], s["arg"]) if s["arg"] else s["a"]) for s in p][:60]))
        if traces:
            v.sample(dict(observed_trace=[(e["e"], e.get("p"), e.get("c"), e.get("k")) for e in trace_at(events, 1)][:50]))
        if extra:
            extra(v, sc, binary)
        v.assumptions += ["Go 1.26.8 testing/synctest virtual clock and quiescence detection", "TLC", "the verif hooks report the scheduler's counters faithfully",
                          "bounded configurations; larger ones only by the randomized parts"]
    return v.finish()


def summarize(pid, tr):
    last = [e for e in tr if e["e"] in ("Q", "QA", "A", "Starved", "Deadline", "Leak", "NoErr", "SentAfterBad", "EV")]
    return "; ".join("%s %s" % (e["e"], e.get("held") or e.get("note") or "") for e in last[-3:]) + " (%d events)" % len(tr)


# ------------------------------------------------------------------------------------------------ properties
def cfgs_basic(tier):
    c = [mk("p2rate", [2, 1], 3, "rate", 2, 2), mk("p3fair", [3, 2, 1], 4, "fair", 1, 1), mk("p2rev", [2, 1], 3, "rev", 2, 1)]
    if tier == "thorough":
        c = [mk("p2rate", [2, 1], 3, "rate", 2, 3), mk("p3fair", [3, 2, 1], 4, "fair", 1, 2), mk("p2rev", [2, 1], 3, "rev", 2, 2),
             mk("p3rate", [3, 2, 1], 6, "rate", 1, 1), mk("p2fairlow", [2, 1], 3, "fairlow", 2, 2), mk("p2skew", [10, 1], 11, "rate", 1, 1)]
    return c


def check_C01(tier):
    return v2_property("C01", tier, cfgs_basic(tier), "stall", free=True,
                       nontrivial=lambda t: t["Q"] is not None and t["Q"] == t["reset"]["H"],
                       rule="transition-cover paths of the TLC state graph of each bounded PrioV2 configuration (real divider table), replayed "
                            "gated into the real v2 scheduler, then the stall continuation (inputs kept full, everything received, nothing "
                            "released); verdict by Mon_Prio: received - release-issued <= H at every event and at the stall point. "
                            "non-trivial = the stall point reached exactly H unreleased items; distinct by the observed event sequence")


def check_C02(tier):
    return v2_property("C02", tier, cfgs_basic(tier), "drain", free=True,
                       nontrivial=lambda t: t["OC"] and t["R"] >= 3,
                       rule="same replayed paths, continuation = close all inputs, release and drain everything; verdict by Mon_Prio: per input "
                            "consecutive ordinals, tag = registered priority, nothing missing when Output() closes, nothing received that was "
                            "not written. non-trivial = terminated trace with >= 3 deliveries; distinct by the observed event sequence")


def check_C07(tier):
    return v2_property("C07", tier, cfgs_basic(tier), "drain", free=True,
                       nontrivial=lambda t: t["OC"] and t["R"] >= 1,
                       rule="replayed paths end in arbitrary model states (inputs open/closed, items held/unreleased); continuation closes, "
                            "releases and drains; verdict by Mon_Prio: Output()/Err() close only after every input is closed and emptied and "
                            "every delivered item released, they do close within the virtual deadline, Err() yields no non-nil value. "
                            "non-trivial = trace that delivered at least one item before closing; distinct by observed event sequence")


def liveness_C06(v, sc, binary):
    """U1 liveness: under fairness of the scheduler and of the environment (handlers release, producers write and close)
    every written item is eventually received and the discipline terminates; vacuity twin without environment fairness"""
    cfgs = [mk("p2live", [2, 1], 3, "rate", 2, 2), mk("p2ulive", [2, 1], 3, "rate", 1, 1, unbuf=(1,)), mk("p2skewlive", [10, 1], 11, "rate", 1, 1)]
    if v.tier == "thorough":
        cfgs += [mk("p3flive", [3, 2, 1], 4, "fair", 1, 1), mk("p3rlive", [3, 2, 1], 6, "rate", 1, 1), mk("p2revlive", [2, 1], 3, "rev", 2, 2),
                 mk("p3ulive", [3, 2, 1], 3, "fair", 1, 1, unbuf=(3, 1))]
    sub = os.path.join(sc, "live")
    os.makedirs(sub, exist_ok=True)
    stage_specs(sub)
    for cfg in cfgs:
        cfgp, rows = pm.div_table(binary, cfg, sub)
        name = pm.write_mc(sub, cfg, rows, spec="LiveSpec", properties=["C06_Live", "C07_Live"])
        r = tlc(sub, name, cfg=name + ".cfg", workers=14, timeout=1500)
        if not r.ok:
            raise Inconclusive("liveness of the model fails or TLC failed on %s (a lead to replay, not a verdict)\n%s" % (name, r.out[-3000:]))
        v.add_tlc(r, name + " liveness C06_Live, C07_Live under SchedFair /\\ EnvFair")
    cfg = cfgs[0]
    cfgp, rows = pm.div_table(binary, cfg, sub)
    name = pm.write_mc(sub, cfg, rows, spec="VacuitySpec", properties=["C07_Live"])
    r = tlc(sub, name, cfg=name + ".cfg", workers=14, timeout=900)
    if not r.prop_violated:
        raise Inconclusive("vacuity guard: liveness holds even when handlers never release")
    v.cov["liveness_vacuity_guard"] = "violated as expected without environment fairness"


def check_C06(tier):
    cfgs = cfgs_basic(tier) + [mk("p2skew", [10, 1], 11, "rate", 1, 1)]
    if tier == "quick":
        cfgs = [cfgs[0], cfgs[2], cfgs[3]]
    return v2_property("C06", tier, cfgs, "alone", free=True,
                       nontrivial=lambda t: t.get("QA") is not None,
                       rule="TLC liveness (every written item eventually received, termination) under fairness, in bounded PrioV2 configs incl. an unbuffered "
                            "input and skewed priorities; real code: every cover path is replayed gated, then the continuation releases and drains everything "
                            "('nothing in flight'), gives data to ONE priority only and never releases: Mon_Prio demands that priority reaches H unreleased "
                            "items (granted all handlers, no release needed), and that nothing written stays undelivered once inputs are closed and "
                            "everything is released (Starved). non-trivial = trace in which the alone-scenario ran; distinct by events",
                       extra=liveness_C06, quick_limit=900)


def check_C05(tier):
    cfgs = [mk("p2sat", [2, 1], 3, "rate", 2, 0, sat=True), mk("p3fsat", [3, 2, 1], 4, "fair", 1, 0, sat=True), mk("p3sat", [3, 2, 1], 6, "rate", 1, 0, sat=True)]
    if tier == "thorough":
        cfgs += [mk("p3f3sat", [3, 2, 1], 3, "fair", 1, 0, sat=True), mk("p2revsat", [2, 1], 3, "rev", 2, 0, sat=True),
                 mk("p4sat", [4, 3, 2, 1], 10, "rate", 1, 0, sat=True)]
    return v2_property("C05", tier, cfgs, "stall",
                       nontrivial=lambda t: t["Q"] is not None and t["R"] > t["reset"]["H"],
                       rule="saturated PrioV2 configurations (infinite supply, every release order and grouping enumerated by TLC); paths replayed "
                            "with every input topped up before each scheduler step; verdict by Mon_Prio: per-priority received - release-issued "
                            "<= share at every event, and at the stall point (nothing outstanding) every priority holds exactly its share, share = "
                            "real divider(all priorities, H). non-trivial = trace with more deliveries than H (shares were recycled); distinct by events",
                       quick_limit=1500)


def check_C15(tier):
    cfgs = [mk("p2fault", [2, 1], 3, "rate", 2, 2, faults=1), mk("p2flfault", [2, 1], 4, "fairlow", 1, 1, faults=1)]
    if tier == "thorough":
        cfgs += [mk("p3ffault", [3, 2, 1], 4, "fair", 1, 1, faults=1), mk("p3rfault", [3, 2, 1], 6, "rate", 1, 1, faults=1),
                 mk("p2revfault", [2, 1], 3, "rev", 2, 2, faults=1)]
    return v2_property("C15", tier, cfgs, "drain", level="fault_enumeration",
                       nontrivial=lambda t: t["reset"].get("fault"),
                       rule="fault model: TLC corrupts the result of any ONE divider call (over- or under-allocation) at any reachable state of the "
                            "bounded PrioV2 configurations; every such behaviour is in the transition cover and is replayed with the fault injected at "
                            "that very call of the real code; verdict by Mon_Prio: ErrDividerBad on Err(), no delivery after detection, capacity kept, "
                            "termination after the releases. non-trivial = trace in which the injected fault produced a non-zero total different from "
                            "the dividend; distinct by events",
                       extra=extra_C15)


def free_v2(sc, binary, tier):
    """free-running randomized runs of the real v2 discipline (real goroutines and clock, -race)"""
    sub = os.path.join(sc, "free")
    os.makedirs(sub, exist_ok=True)
    env = dict(OUT_DIR=sub, FREE_RUNS=60 if tier == "quick" else 1500, FREE_SECONDS=15 if tier == "quick" else 150)
    rc, out, wall = run_test(binary, "TestFreeV2$", env=env, timeout=900)
    m = re.search(r"FREE runs=(\d+) events=(\d+) distinct_divider_calls=(\d+)", out)
    if not m:
        raise Inconclusive("free-running driver died\n" + out[-3000:])
    return sub, dict(runs=int(m.group(1)), events=int(m.group(2)), calls=int(m.group(3)), races=races_in(out), out=out)


def extra_C15(v, sc, binary):
    """divider contract (arguments seen by a wrapping divider in free-running runs) and the constructor clause"""
    from pure import run_utils, line_of, tlc_calls
    sub, st = free_v2(sc, binary, v.tier)
    stage_specs(sub)
    res, viol, drift = tlc_calls(sub, "PureContract", "i", v, ("C15",))
    calls = os.path.join(sub, "contract_calls.ndjson")
    for inv, idx in viol[:3]:
        c = line_of(calls, idx)
        v.violation("C15: divider called outside its contract: %s" % json.dumps(c), dict(kind="divider-contract", call=c))
    v.cov["divider_calls_checked"] = st["calls"]
    # constructor clause via the pure engine's PureUtils (C15_new) on the real v2 New
    sub2 = os.path.join(sc, "utils")
    os.makedirs(sub2, exist_ok=True)
    calls2, res2, viol2, other = run_utils(v.tier, v, sub2, ("C15",))
    for inv, idx in viol2[:3]:
        c = line_of(calls2, idx)
        v.violation("C15 constructor clause: %s fails for %s" % (inv, json.dumps(c)[:600]), dict(kind="utils-call", invariant=inv, call=c))
    v.cov["constructor_calls_checked"] = res2.distinct


def replay_file(pid, obj):
    """re-execute one recorded violation: the model path is replayed into the current tree and re-judged by the monitor"""
    r = obj["replay"]
    v = Verdict(pid, "quick", "model_checking")
    with Scratch("replay") as sc:
        binary = os.path.join(sc, "prioh.test")
        build_test("prioh", binary)
        cfg = r["cfg"]
        cfgp = os.path.join(sc, "cfg.json")
        json.dump(cfg, open(cfgp, "w"))
        paths = os.path.join(sc, "paths.ndjson")
        with open(paths, "w") as f:
            f.write(json.dumps(r["path"]) + "\n")
        rp = replay(binary, sc, cfgp, paths, r["cont"])
        viol, events = run_monitor(sc, [os.path.join(sc, "replay_events.ndjson")], v)
        print("replayed: diverged=%d monitor=%s" % (rp["diverged"], {k: len(s) for k, s in viol.items()}))
        if pid in viol:
            print("VIOLATION property=%s replay=%s" % (pid, "(reproduced)"))
            return 1
    return 0
